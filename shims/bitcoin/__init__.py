# Minimal stand-in for python-bitcoinlib (only the subset comm/bitcoin.py uses).
