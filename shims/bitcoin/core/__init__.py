# Minimal re-implementation of the python-bitcoinlib 0.12.2 `bitcoin.core`
# API subset used by rsk-powhsm's middleware/comm/bitcoin.py.
import struct
from . import script
from .script import CScript
from .serialize import (  # noqa: F401
    Hash, Serializable, VarIntSerializer, BytesSerializer, VectorSerializer,
    ser_read, SerializationError, SerializationTruncationError,
    DeserializationExtraDataError)


import binascii

# names of the real package that this stand-in does not provide and that were asked for: a
# miss is the harness's shortcoming, never the behaviour of the code under test
SHIM_MISSING = []


def __getattr__(name):
    if not name.startswith("__"):
        SHIM_MISSING.append("bitcoin.core." + name)
    raise AttributeError("module 'bitcoin.core' (stand-in) has no attribute %r" % name)



def x(h):
    """Convert a hex string to bytes"""
    return binascii.unhexlify(h.encode('utf8'))


def b2x(b):
    """Convert bytes to a hex string"""
    return binascii.hexlify(b).decode('utf8')


def lx(h):
    """Convert a little-endian hex string to bytes"""
    return binascii.unhexlify(h.encode('utf8'))[::-1]


def b2lx(b):
    """Convert bytes to a little-endian hex string"""
    return binascii.hexlify(b[::-1]).decode('utf8')


def str_money_value(value):
    """Convert an integer money value to a fixed point string"""
    r = '%i.%08i' % (value // COIN, value % COIN)
    r = r.rstrip('0')
    if r[-1] == '.':
        r += '0'
    return r


COIN = 100000000
MAX_BLOCK_SIZE = 1000000
MAX_BLOCK_WEIGHT = 4000000
WITNESS_COINBASE_SCRIPTPUBKEY_MAGIC = bytes([0x6a, 0x24, 0xaa, 0x21, 0xa9, 0xed])


class ValidationError(Exception):
    """Base class for all blockchain validation errors"""


class COutPoint(Serializable):
    def __init__(self, hash=b'\x00' * 32, n=0xffffffff):
        if not len(hash) == 32:
            raise ValueError('COutPoint: hash must be exactly 32 bytes')
        self.hash = hash
        if not (0 <= n <= 0xffffffff):
            raise ValueError('COutPoint: n out of range')
        self.n = n

    @classmethod
    def stream_deserialize(cls, f):
        hash = ser_read(f, 32)
        n = struct.unpack(b"<I", ser_read(f, 4))[0]
        return cls(hash, n)

    def stream_serialize(self, f):
        f.write(self.hash)
        f.write(struct.pack(b"<I", self.n))


class CMutableOutPoint(COutPoint):
    @classmethod
    def from_outpoint(cls, outpoint):
        return cls(outpoint.hash, outpoint.n)


class CTxIn(Serializable):
    def __init__(self, prevout=None, scriptSig=CScript(), nSequence=0xffffffff):
        if not (0 <= nSequence <= 0xffffffff):
            raise ValueError('CTxIn: nSequence out of range')
        self.nSequence = nSequence
        if prevout is None:
            prevout = COutPoint()
        self.prevout = prevout
        self.scriptSig = scriptSig

    @classmethod
    def stream_deserialize(cls, f):
        prevout = COutPoint.stream_deserialize(f)
        scriptSig = script.CScript(BytesSerializer.stream_deserialize(f))
        nSequence = struct.unpack(b"<I", ser_read(f, 4))[0]
        return cls(prevout, scriptSig, nSequence)

    def stream_serialize(self, f):
        COutPoint.stream_serialize(self.prevout, f)
        BytesSerializer.stream_serialize(self.scriptSig, f)
        f.write(struct.pack(b"<I", self.nSequence))


class CMutableTxIn(CTxIn):
    def __init__(self, prevout=None, scriptSig=CScript(), nSequence=0xffffffff):
        if prevout is None:
            prevout = CMutableOutPoint()
        super().__init__(prevout, scriptSig, nSequence)

    @classmethod
    def from_txin(cls, txin):
        prevout = CMutableOutPoint.from_outpoint(txin.prevout)
        return cls(prevout, txin.scriptSig, txin.nSequence)


class CTxOut(Serializable):
    def __init__(self, nValue=-1, scriptPubKey=script.CScript()):
        self.nValue = int(nValue)
        self.scriptPubKey = scriptPubKey

    @classmethod
    def stream_deserialize(cls, f):
        nValue = struct.unpack(b"<q", ser_read(f, 8))[0]
        scriptPubKey = script.CScript(BytesSerializer.stream_deserialize(f))
        return cls(nValue, scriptPubKey)

    def stream_serialize(self, f):
        f.write(struct.pack(b"<q", self.nValue))
        BytesSerializer.stream_serialize(self.scriptPubKey, f)


class CMutableTxOut(CTxOut):
    @classmethod
    def from_txout(cls, txout):
        return cls(txout.nValue, txout.scriptPubKey)


class CScriptWitness(Serializable):
    def __init__(self, stack=()):
        self.stack = tuple(stack)

    def is_null(self):
        return len(self.stack) == 0

    @classmethod
    def stream_deserialize(cls, f):
        n = VarIntSerializer.stream_deserialize(f)
        stack = tuple(BytesSerializer.stream_deserialize(f) for i in range(n))
        return cls(stack)

    def stream_serialize(self, f):
        VarIntSerializer.stream_serialize(len(self.stack), f)
        for s in self.stack:
            BytesSerializer.stream_serialize(s, f)


class CTxInWitness(Serializable):
    def __init__(self, scriptWitness=None):
        self.scriptWitness = scriptWitness if scriptWitness is not None \
            else CScriptWitness()

    def is_null(self):
        return self.scriptWitness.is_null()

    @classmethod
    def stream_deserialize(cls, f):
        return cls(CScriptWitness.stream_deserialize(f))

    def stream_serialize(self, f):
        self.scriptWitness.stream_serialize(f)


class CTxWitness(Serializable):
    def __init__(self, vtxinwit=()):
        self.vtxinwit = tuple(vtxinwit)

    def is_null(self):
        for n in range(len(self.vtxinwit)):
            if not self.vtxinwit[n].is_null():
                return False
        return True

    def stream_deserialize(self, f):
        vtxinwit = tuple(CTxInWitness.stream_deserialize(f)
                         for dummy in range(len(self.vtxinwit)))
        return CTxWitness(vtxinwit)

    def stream_serialize(self, f):
        for i in range(len(self.vtxinwit)):
            self.vtxinwit[i].stream_serialize(f)


class CTransaction(Serializable):
    def __init__(self, vin=(), vout=(), nLockTime=0, nVersion=1, witness=None):
        if not (0 <= nLockTime <= 0xffffffff):
            raise ValueError('CTransaction: nLockTime must be in range 0x0 to 0xffffffff')
        self.nLockTime = nLockTime
        self.nVersion = nVersion
        self.vin = list(vin)
        self.vout = list(vout)
        self.wit = witness if witness is not None else CTxWitness()

    @classmethod
    def stream_deserialize(cls, f):
        nVersion = struct.unpack(b"<i", ser_read(f, 4))[0]
        pos = f.tell()
        markerbyte = struct.unpack(b'B', ser_read(f, 1))[0]
        flagbyte = struct.unpack(b'B', ser_read(f, 1))[0]
        if markerbyte == 0 and flagbyte == 1:
            vin = VectorSerializer.stream_deserialize(cls._txin_cls, f)
            vout = VectorSerializer.stream_deserialize(cls._txout_cls, f)
            wit = CTxWitness(tuple(0 for dummy in range(len(vin))))
            wit = wit.stream_deserialize(f)
            nLockTime = struct.unpack(b"<I", ser_read(f, 4))[0]
            return cls(vin, vout, nLockTime, nVersion, wit)
        else:
            f.seek(pos)
            vin = VectorSerializer.stream_deserialize(cls._txin_cls, f)
            vout = VectorSerializer.stream_deserialize(cls._txout_cls, f)
            nLockTime = struct.unpack(b"<I", ser_read(f, 4))[0]
            return cls(vin, vout, nLockTime, nVersion)

    def stream_serialize(self, f, include_witness=True):
        f.write(struct.pack(b"<i", self.nVersion))
        if include_witness and self.wit is not None and not self.wit.is_null():
            assert len(self.wit.vtxinwit) <= len(self.vin)
            f.write(b'\x00')
            f.write(b'\x01')
            VectorSerializer.stream_serialize(CTxIn, self.vin, f)
            VectorSerializer.stream_serialize(CTxOut, self.vout, f)
            self.wit.stream_serialize(f)
        else:
            VectorSerializer.stream_serialize(CTxIn, self.vin, f)
            VectorSerializer.stream_serialize(CTxOut, self.vout, f)
        f.write(struct.pack(b"<I", self.nLockTime))

    def GetTxid(self):
        if self.wit is not None and not self.wit.is_null():
            return Hash(self.serialize(params={'include_witness': False}))
        return Hash(self.serialize())

    def GetHash(self):
        return Hash(self.serialize(params={'include_witness': False}))

    @classmethod
    def from_tx(cls, tx):
        vin = [cls._txin_cls.from_txin(txin) if hasattr(cls._txin_cls, 'from_txin')
               else txin for txin in tx.vin]
        vout = [cls._txout_cls.from_txout(o) if hasattr(cls._txout_cls, 'from_txout')
                else o for o in tx.vout]
        return cls(vin, vout, tx.nLockTime, tx.nVersion, tx.wit)


CTransaction._txin_cls = CTxIn
CTransaction._txout_cls = CTxOut


class CMutableTransaction(CTransaction):
    pass


CMutableTransaction._txin_cls = CMutableTxIn
CMutableTransaction._txout_cls = CMutableTxOut


class CBlockHeader(Serializable):
    def __init__(self, nVersion=2, hashPrevBlock=b'\x00' * 32, hashMerkleRoot=b'\x00' * 32,
                 nTime=0, nBits=0, nNonce=0):
        self.nVersion = nVersion
        assert len(hashPrevBlock) == 32
        assert len(hashMerkleRoot) == 32
        self.hashPrevBlock = hashPrevBlock
        self.hashMerkleRoot = hashMerkleRoot
        self.nTime = nTime
        self.nBits = nBits
        self.nNonce = nNonce

    @classmethod
    def stream_deserialize(cls, f):
        nVersion = struct.unpack(b"<i", ser_read(f, 4))[0]
        hashPrevBlock = ser_read(f, 32)
        hashMerkleRoot = ser_read(f, 32)
        nTime = struct.unpack(b"<I", ser_read(f, 4))[0]
        nBits = struct.unpack(b"<I", ser_read(f, 4))[0]
        nNonce = struct.unpack(b"<I", ser_read(f, 4))[0]
        return cls(nVersion, hashPrevBlock, hashMerkleRoot, nTime, nBits, nNonce)

    def stream_serialize(self, f):
        f.write(struct.pack(b"<i", self.nVersion))
        f.write(self.hashPrevBlock)
        f.write(self.hashMerkleRoot)
        f.write(struct.pack(b"<I", self.nTime))
        f.write(struct.pack(b"<I", self.nBits))
        f.write(struct.pack(b"<I", self.nNonce))
