import struct
import hashlib
from .serialize import Hash, VarIntSerializer, BytesSerializer
from io import BytesIO

MAX_SCRIPT_ELEMENT_SIZE = 520

OP_0 = 0x00
OP_PUSHDATA1 = 0x4c
OP_PUSHDATA2 = 0x4d
OP_PUSHDATA4 = 0x4e
OP_1NEGATE = 0x4f
OP_1 = 0x51
OP_16 = 0x60
OP_CODESEPARATOR = 0xab

SIGHASH_ALL = 1
SIGHASH_NONE = 2
SIGHASH_SINGLE = 3
SIGHASH_ANYONECANPAY = 0x80

SIGVERSION_BASE = 0
SIGVERSION_WITNESS_V0 = 1


class CScriptInvalidError(Exception):
    pass


class CScriptTruncatedPushDataError(CScriptInvalidError):
    def __init__(self, msg, data):
        self.data = data
        super().__init__(msg)


def _bn2vch(v):
    # bignum -> minimal little-endian sign-magnitude vector
    if v == 0:
        return b''
    neg = v < 0
    a = abs(v)
    out = bytearray()
    while a:
        out.append(a & 0xff)
        a >>= 8
    if out[-1] & 0x80:
        out.append(0x80 if neg else 0x00)
    elif neg:
        out[-1] |= 0x80
    return bytes(out)


class CScriptOp(int):
    __slots__ = ()

    @staticmethod
    def encode_op_pushdata(d):
        if len(d) < 0x4c:
            return bytes([len(d)]) + d
        elif len(d) <= 0xff:
            return b'\x4c' + bytes([len(d)]) + d
        elif len(d) <= 0xffff:
            return b'\x4d' + struct.pack(b'<H', len(d)) + d
        elif len(d) <= 0xffffffff:
            return b'\x4e' + struct.pack(b'<I', len(d)) + d
        else:
            raise ValueError("Data too long to encode in a PUSHDATA op")

    @staticmethod
    def encode_op_n(n):
        if not (0 <= n <= 16):
            raise ValueError('Integer must be in range 0 <= n <= 16, got %d' % n)
        if n == 0:
            return CScriptOp(OP_0)
        return CScriptOp(OP_1 + n - 1)

    def decode_op_n(self):
        if self == OP_0:
            return 0
        if not (self == OP_0 or OP_1 <= self <= OP_16):
            raise ValueError('op %r is not an OP_N' % self)
        return int(self - OP_1 + 1)

    def is_small_int(self):
        return 0x51 <= self <= 0x60 or self == 0

    def __repr__(self):
        return 'CScriptOp(0x%x)' % int(self)


class CScript(bytes):
    @classmethod
    def _coerce_instance(cls, other):
        if isinstance(other, CScriptOp):
            other = bytes([other])
        elif isinstance(other, int):
            if 0 <= other <= 16:
                other = bytes([CScriptOp.encode_op_n(other)])
            elif other == -1:
                other = bytes([OP_1NEGATE])
            else:
                other = CScriptOp.encode_op_pushdata(_bn2vch(other))
        elif isinstance(other, (bytes, bytearray)):
            other = bytes(CScriptOp.encode_op_pushdata(bytes(other)))
        return other

    def __new__(cls, value=b''):
        if isinstance(value, (bytes, bytearray)):
            return super().__new__(cls, value)
        return super().__new__(
            cls, b''.join(cls._coerce_instance(i) for i in value))

    def raw_iter(self):
        i = 0
        while i < len(self):
            sop_idx = i
            opcode = self[i]
            i += 1
            if opcode > OP_PUSHDATA4:
                yield (opcode, None, sop_idx)
            else:
                if opcode < OP_PUSHDATA1:
                    pushdata_type = 'PUSHDATA(%d)' % opcode
                    datasize = opcode
                elif opcode == OP_PUSHDATA1:
                    pushdata_type = 'PUSHDATA1'
                    if i >= len(self):
                        raise CScriptInvalidError('PUSHDATA1: missing data length')
                    datasize = self[i]
                    i += 1
                elif opcode == OP_PUSHDATA2:
                    pushdata_type = 'PUSHDATA2'
                    if i + 1 >= len(self):
                        raise CScriptInvalidError('PUSHDATA2: missing data length')
                    datasize = self[i] + (self[i + 1] << 8)
                    i += 2
                else:
                    pushdata_type = 'PUSHDATA4'
                    if i + 3 >= len(self):
                        raise CScriptInvalidError('PUSHDATA4: missing data length')
                    datasize = (self[i] + (self[i + 1] << 8) +
                                (self[i + 2] << 16) + (self[i + 3] << 24))
                    i += 4
                data = bytes(self[i:i + datasize])
                if len(data) < datasize:
                    raise CScriptTruncatedPushDataError(
                        '%s: truncated data' % pushdata_type, data)
                i += datasize
                yield (opcode, data, sop_idx)

    def __iter__(self):
        for (opcode, data, sop_idx) in self.raw_iter():
            if opcode == 0:
                yield 0
            elif data is not None:
                yield data
            else:
                opcode = CScriptOp(opcode)
                if opcode.is_small_int():
                    yield opcode.decode_op_n()
                else:
                    yield CScriptOp(opcode)


def FindAndDelete(script, sig):
    r = b''
    last_sop_idx = sop_idx = 0
    skip = True
    for (opcode, data, sop_idx) in script.raw_iter():
        if not skip:
            r += script[last_sop_idx:sop_idx]
        last_sop_idx = sop_idx
        if script[sop_idx:sop_idx + len(sig)] == sig:
            skip = True
        else:
            skip = False
    if not skip:
        r += script[last_sop_idx:]
    return CScript(r)


def RawSignatureHash(script, txTo, inIdx, hashtype):
    from . import CMutableTransaction, CMutableTxOut, CMutableTxIn
    HASH_ONE = b'\x01' + b'\x00' * 31
    if inIdx >= len(txTo.vin):
        return (HASH_ONE, "inIdx %d out of range (%d)" % (inIdx, len(txTo.vin)))
    txtmp = CMutableTransaction.from_tx(txTo)
    for txin in txtmp.vin:
        txin.scriptSig = b''
    txtmp.vin[inIdx].scriptSig = FindAndDelete(script, CScript([CScriptOp(OP_CODESEPARATOR)]))
    if (hashtype & 0x1f) == SIGHASH_NONE:
        txtmp.vout = []
        for i in range(len(txtmp.vin)):
            if i != inIdx:
                txtmp.vin[i].nSequence = 0
    elif (hashtype & 0x1f) == SIGHASH_SINGLE:
        outIdx = inIdx
        if outIdx >= len(txtmp.vout):
            return (HASH_ONE, "outIdx %d out of range (%d)" % (outIdx, len(txtmp.vout)))
        tmp = txtmp.vout[outIdx]
        txtmp.vout = []
        for i in range(outIdx):
            txtmp.vout.append(CMutableTxOut())
        txtmp.vout.append(tmp)
        for i in range(len(txtmp.vin)):
            if i != inIdx:
                txtmp.vin[i].nSequence = 0
    if hashtype & SIGHASH_ANYONECANPAY:
        tmp = txtmp.vin[inIdx]
        txtmp.vin = [tmp]
    txtmp.wit = None
    s = txtmp.serialize(params={'include_witness': False})
    s += struct.pack(b"<i", hashtype)
    return (Hash(s), None)


def SignatureHash(script, txTo, inIdx, hashtype, amount=None, sigversion=SIGVERSION_BASE):
    if sigversion == SIGVERSION_WITNESS_V0:
        hashPrevouts = b'\x00' * 32
        hashSequence = b'\x00' * 32
        hashOutputs = b'\x00' * 32
        if not (hashtype & SIGHASH_ANYONECANPAY):
            sp = b''
            for i in txTo.vin:
                sp += i.prevout.serialize()
            hashPrevouts = Hash(sp)
        if (not (hashtype & SIGHASH_ANYONECANPAY) and (hashtype & 0x1f) != SIGHASH_SINGLE
                and (hashtype & 0x1f) != SIGHASH_NONE):
            ss = b''
            for i in txTo.vin:
                ss += struct.pack("<I", i.nSequence)
            hashSequence = Hash(ss)
        if ((hashtype & 0x1f) != SIGHASH_SINGLE and (hashtype & 0x1f) != SIGHASH_NONE):
            so = b''
            for o in txTo.vout:
                so += o.serialize()
            hashOutputs = Hash(so)
        elif ((hashtype & 0x1f) == SIGHASH_SINGLE and inIdx < len(txTo.vout)):
            hashOutputs = Hash(txTo.vout[inIdx].serialize())
        f = BytesIO()
        f.write(struct.pack("<i", txTo.nVersion))
        f.write(hashPrevouts)
        f.write(hashSequence)
        txTo.vin[inIdx].prevout.stream_serialize(f)
        BytesSerializer.stream_serialize(script, f)
        f.write(struct.pack("<q", amount))
        f.write(struct.pack("<I", txTo.vin[inIdx].nSequence))
        f.write(hashOutputs)
        f.write(struct.pack("<i", txTo.nLockTime))
        f.write(struct.pack("<i", hashtype))
        return Hash(f.getvalue())
    assert not script.is_witness_scriptpubkey() if hasattr(script, 'is_witness_scriptpubkey') else True
    (h, err) = RawSignatureHash(script, txTo, inIdx, hashtype)
    if err is not None:
        raise ValueError(err)
    return h
