#!/usr/bin/env python3
"""Regenerates /verif/MANIFEST.json from the table below (one entry per property that has a
check module under checks/). Properties without a check are listed under not_applicable."""
import json
import os
import sys

HERE = os.path.dirname(os.path.dirname(os.path.abspath(__file__)))

BASELINE = ("cd /repo && /venv/bin/python -m pytest -ra -q -p no:cacheprovider --timeout=900 "
            "--continue-on-collection-errors")

# id -> (level, technique, level text, level note, design ref)
TABLE = {
    "C01": ("exploration",
            "property-based testing (Hypothesis) against a simulated signer device; byte-equality "
            "oracle on reassembled parts vs harness-computed AST serialization",
            "Generated sign requests x chunk policies x device deviations are driven through the "
            "real protocol and APDU layers; the device reassembles from wire framing only and "
            "every held part is compared byte for byte with an expectation computed by the "
            "harness's own serializers; success <=> full consumption, device success and a "
            "well-formed signature. Sampling, not proof.",
            "trusts the simulated device's framing (taken from firmware sources), the "
            "python-bitcoinlib stand-in (validated at setup) and Hypothesis", "5/C01"),
}

NOT_BUILT = "check not built yet in this round (planned in DESIGN.md section 5); not claimed"


def main():
    props = [json.loads(l) for l in open(os.path.join(HERE, "properties.jsonl"))]
    checks, na = [], []
    for p in props:
        pid = p["id"]
        have = os.path.exists(os.path.join(HERE, "checks", pid.lower() + ".py"))
        if pid in TABLE and have:
            level, tech, text, note, ref = TABLE[pid]
            checks.append({
                "property_id": pid,
                "quick_cmd": "./check %s --tier quick" % pid,
                "thorough_cmd": "./check %s --tier thorough" % pid,
                "evidence_file": "/verif/evidence/%s.json" % pid,
                "replay_cmd_template": "./check %s --replay {path}" % pid,
                "engine": "pbt-runner",
                "level_claimed": {"category": level, "text": text,
                                  "design_ref": "DESIGN.md section " + ref},
                "level_note": note,
                "technique": tech,
            })
        else:
            na.append({"property_id": pid, "reason": NOT_BUILT})
    man = {
        "version": 1,
        "setup_cmd": "./setup.sh",
        "hooks": {
            "guard": "RSK_POWHSM_VERIF",
            "enable": "no source hooks: checks replace patchable module attributes (transport "
                      "factories, sleeps, clock, open) at run time; nothing to build",
            "baseline_off_cmd": BASELINE,
            "source_commits": [],
            "add_only": True,
        },
        "engines": [{
            "name": "pbt-runner", "path": "/verif/vlib/runner.py",
            "serves_properties": [c["property_id"] for c in checks],
            "kind_free_text": "16-process sharded Hypothesis / exhaustive enumeration / atheris "
                              "runner over the real middleware and a simulated powHSM device",
        }],
        "checks": checks,
        "not_applicable": na,
        "notes": "All checks run /repo's current working tree in fresh /venv/bin/python "
                 "processes with PYTHONPATH=/verif/shims:/repo/middleware. Exit 0 held / 1 "
                 "VIOLATION / 2 harness error. known_findings.json lists recorded and fixed "
                 "defects.",
    }
    with open(os.path.join(HERE, "MANIFEST.json"), "w") as f:
        json.dump(man, f, indent=1)
        f.write("\n")
    print("MANIFEST.json: %d checks, %d not_applicable" % (len(checks), len(na)))


if __name__ == "__main__":
    sys.exit(main())
