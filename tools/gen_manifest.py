#!/usr/bin/env python3
"""Regenerates /verif/MANIFEST.json from the table below (one entry per property that has a
check module under checks/). Properties without a check are listed under not_applicable."""
import json
import os
import sys

HERE = os.path.dirname(os.path.dirname(os.path.abspath(__file__)))

BASELINE = ("cd /repo && /venv/bin/python -m pytest -ra -q -p no:cacheprovider --timeout=900 "
            "--continue-on-collection-errors")

# id -> (level, technique, level text, level note, design ref)
TABLE = {
    "C01": ("exploration",
            "property-based testing (Hypothesis) against a simulated signer device; byte-equality "
            "oracle on reassembled parts vs harness-computed AST serialization",
            "Generated sign requests x chunk policies x device deviations are driven through the "
            "real protocol and APDU layers; the device reassembles from wire framing only and "
            "every held part is compared byte for byte with an expectation computed by the "
            "harness's own serializers; success <=> full consumption, device success and a "
            "well-formed signature. Sampling, not proof.",
            "trusts the simulated device's framing (taken from firmware sources), the "
            "python-bitcoinlib stand-in (validated at setup) and Hypothesis", "5/C01"),
    "C02": ("exploration",
            "property-based testing: field-aware mutation of documented requests; differential "
            "oracle against a classifier transcribed from docs/protocol*.md",
            "Mutated and arbitrary JSON requests in both protocol modes are classified by the real "
            "protocol objects; the observed verdict (error code, or 'accepted' = an APDU reached "
            "the simulated device) must lie in the verdict set the documentation allows, and a "
            "request that is not accepted must cause no exchange. Cases the docs do not decide "
            "are counted as ambiguous and not asserted.",
            "trusts the transcription of the docs in vlib/spec.py", "5/C02"),
    "C03": ("exploration",
            "property-based testing and fuzzing of request lines (Hypothesis histories, real TCP "
            "sockets, coverage-guided atheris tier) with the reply contract as oracle",
            "Histories of hostile request lines are fed to the real request handler (and to the "
            "real TCPServer over sockets); every line must get exactly one JSON-object line with "
            "an integer errorcode, the handler must not signal shutdown, and a following "
            "connection must be served. Sampling of an infinite input space.",
            "device keeps to its protocol (simulated device without faults)", "5/C03"),
    "C04": ("fault_enumeration",
            "exhaustive fault enumeration: every (command, exchange step, status word / timeout / "
            "link error / unexpected opcode) cell against documented code sets and a "
            "firmware-derived cause table",
            "The thorough tier enumerates the complete finite matrix (about 4.5 million cells) on "
            "16 processes; each cell injects the outcome at that exchange of the real stack and "
            "checks the reply code against docs/protocol.md, the success <=> device-success "
            "rule, the named-cause table and no-shutdown inside the device error range. "
            "Exhaustive relative to the simulated device and the nominal requests.",
            "cause table transcribed from firmware headers; fault shapes are those ledgerblue "
            "raises", "5/C04"),
    "C05": ("exploration",
            "property-based testing against a simulated device; oracle = harness RLP / Keccak / "
            "SHA-256-midstate reference implementations",
            "Generated header lists with brothers and device plans are sent through the real "
            "advanceBlockchain / updateAncestorBlock; what the device reassembled (count, order, "
            "bytes, metadata, sorted brothers) is compared with values computed by independent "
            "reference code; reply 0/1 <=> device total/partial success.",
            "trusts the harness's RLP, Keccak (pycryptodome) and SHA-256 compression references", "5/C05"),
    "C06": ("exploration",
            "property-based testing with construction-known validity and an independent "
            "pure-Python ECDSA verifier as differential oracle",
            "Version-1 certificates over arbitrary element graphs with 0..2 corruptions; expected "
            "verdict map from an independent chain walk (ecdsa package + explicit tweak) must "
            "equal validate_and_get_values exactly.",
            "trusts the ecdsa package as independent verifier; high-S malleation not asserted", "5/C06"),
    "C07": ("exploration",
            "property-based testing over freshly built X.509 / SGX quote chains with a fake clock; "
            "validity known by construction and re-checked by independent verification",
            "Generated chains, validity windows and single-point corruptions; quote target valid "
            "iff every link verifies, with exact values when valid.",
            "trusts cryptography/ecdsa as independent verifiers and the harness's SGX structure "
            "builder", "5/C07"),
    "C08": ("exploration",
            "property-based testing of the verify commands: genuine vs re-signed semantic variants; "
            "oracle = success iff genuine, printed values = generated values",
            "Generated (attestation, public keys, root) triples for Ledger and SGX; variants differ "
            "in exactly one semantic datum and are re-signed so the chain stays valid.",
            "trusts the harness's certificate builders", "5/C08"),
    "C09": ("exploration",
            "exhaustive enumeration of the bring-up configuration grid against a small reference "
            "model",
            "Every configuration of the grid is run through the real initialize_device on the "
            "simulated device; observed (unlock commands sent, serves) must equal the model; a "
            "sample per outcome class is confirmed through the real TCPServer.",
            "the reference model transcribes the property statement", "5/C09"),
    "C10": ("fault_enumeration",
            "stateful property-based testing with crash and file-fault injection; invariants over "
            "durable state",
            "Histories of start-ups with device reactions, file faults and crashes at every step "
            "boundary; invariants (a)-(e) of the design after every step; complete enumeration of "
            "single-start scenarios.",
            "crashes are modelled at middleware step boundaries, not inside the OS", "5/C10"),
    "C11": ("fault_enumeration",
            "exhaustive link-fault enumeration plus generated two-fault histories; oracle on reply "
            "codes and on the transport event log",
            "Every (command, exchange index, fault kind, reconnection outcome, follow-up) cell; "
            "the faulted request must get -905 (-2), the next one must close, reconnect and repeat "
            "bring-up before any command APDU.",
            "faults are the exception shapes of the real transports", "5/C11"),
    "C12": ("exploration",
            "schedule exploration: generated multi-client scripts with injected device-side delays "
            "against the real TCPServer over sockets; invariant = no overlapping / interleaved "
            "exchanges, own reply",
            "2..16 client threads; the device log tags each exchange with the request being "
            "served; invariants are schedule-independent for a serial server, so no false alarms; "
            "detection of a concurrent server is probabilistic.",
            "the OS scheduler is not controlled", "5/C12"),
    "C13": ("exploration",
            "property-based testing: random device states, field-by-field equality oracle",
            "Random device states and heartbeat material; every reply field must equal the datum "
            "the simulated device holds for it.",
            "simulated device framing from firmware sources", "5/C13"),
    "C14": ("exploration",
            "property-based testing on transaction ASTs: structural oracle, idempotence and pair "
            "metamorphic relations",
            "Generated ASTs with every push encoding; unsigned form compared structurally with the "
            "AST; unsign(unsign(x)) == unsign(x); pairs differing in non-final pushes; undecodable "
            "/ empty script => -102 and no APDU.",
            "python-bitcoinlib stand-in; expectations computed on the AST by the harness", "5/C14"),
    "C15": ("exploration",
            "property-based testing of full command sequences against a simulated genuine device; "
            "round-trip and single-point alteration oracle",
            "onboard -> attestation -> pubkeys -> verify (Ledger) and attestation -> verify (SGX) "
            "run for real against generated devices; any alteration of signed data, signatures, "
            "certificates or root must make gathering or verification fail.",
            "simulated device and attestation key hierarchy built by the harness", "5/C15"),
    "C16": ("exploration",
            "property-based testing and coverage-guided fuzzing of certificate documents; oracle = "
            "termination, harness graph walk, verdict per target, save/load round trip",
            "Documents built from element graphs with 0..2 defects plus genuine certificates; "
            "generator-quality gates fail closed.",
            "30 s watchdog stands for non-termination", "5/C16"),
    "C17": ("exploration",
            "property-based testing: text/digest reference, cross-library signature verification, "
            "APDU order oracle",
            "Signer hashes, iterations and signature lists against message format, signapp "
            "output, save/load and the authorize APDU sequence.",
            "Keccak from pycryptodome; libsecp256k1 vs ecdsa cross-check", "5/C17"),
    "C18": ("exploration",
            "exhaustive enumeration of device state x operator input grid against a precondition "
            "predicate",
            "Every combination is run through the real admin commands; destructive APDUs may "
            "appear only when the reference predicate allows, and then the effect is checked.",
            "the predicate transcribes the property statement", "5/C18"),
    "C19": ("exploration",
            "property-based testing: Intel-HEX writer oracle, cross-library signature verification",
            "Generated images written with arbitrary record layouts; hash must equal SHA-256 over "
            "the harness's area list; one-time signatures verify under the written key.",
            "harness Intel-HEX writer", "5/C19"),
}

NOT_BUILT = "check not built yet in this round (planned in DESIGN.md section 5); not claimed"


def main():
    props = [json.loads(l) for l in open(os.path.join(HERE, "properties.jsonl"))]
    checks, na = [], []
    for p in props:
        pid = p["id"]
        have = os.path.exists(os.path.join(HERE, "checks", pid.lower() + ".py"))
        if pid in TABLE and have:
            level, tech, text, note, ref = TABLE[pid]
            checks.append({
                "property_id": pid,
                "quick_cmd": "./check %s --tier quick" % pid,
                "thorough_cmd": "./check %s --tier thorough" % pid,
                "evidence_file": "/verif/evidence/%s.json" % pid,
                "replay_cmd_template": "./check %s --replay {path}" % pid,
                "engine": "pbt-runner",
                "level_claimed": {"category": level, "text": text,
                                  "design_ref": "DESIGN.md section " + ref},
                "level_note": note,
                "technique": tech,
            })
        else:
            na.append({"property_id": pid, "reason": NOT_BUILT})
    man = {
        "version": 1,
        "setup_cmd": "./setup.sh",
        "hooks": {
            "guard": "RSK_POWHSM_VERIF",
            "enable": "no source hooks: checks replace patchable module attributes (transport "
                      "factories, sleeps, clock, open) at run time; nothing to build",
            "baseline_off_cmd": BASELINE,
            "source_commits": [],
            "add_only": True,
        },
        "engines": [{
            "name": "pbt-runner", "path": "/verif/vlib/runner.py",
            "serves_properties": [c["property_id"] for c in checks],
            "kind_free_text": "16-process sharded Hypothesis / exhaustive enumeration / atheris "
                              "runner over the real middleware and a simulated powHSM device",
        }],
        "checks": checks,
        "not_applicable": na,
        "notes": "All checks run /repo's current working tree in fresh /venv/bin/python "
                 "processes with PYTHONPATH=/verif/shims:/repo/middleware. Exit 0 held / 1 "
                 "VIOLATION / 2 harness error. known_findings.json lists recorded and fixed "
                 "defects.",
    }
    with open(os.path.join(HERE, "MANIFEST.json"), "w") as f:
        json.dump(man, f, indent=1)
        f.write("\n")
    print("MANIFEST.json: %d checks, %d not_applicable" % (len(checks), len(na)))


if __name__ == "__main__":
    sys.exit(main())
