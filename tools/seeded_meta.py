#!/usr/bin/env python3
"""Writes seeded/<name>/meta.json from the table below plus the recorded eval.txt."""
import json
import os

HERE = os.path.dirname(os.path.dirname(os.path.abspath(__file__)))
T = {
 "C01-count-includes-op-byte": ("C01", "device ends a part early while the number of unconsumed bytes is at most the number of chunks sent so far in that part (byte counter also counts the op byte)", "caught as written (early-termination deviations with small remainders were already generated)"),
 "C02-bool-as-int": ("C02", "sign request whose message.input / outpointValue is a JSON boolean (isinstance instead of exact type)", "MISSED at first (random mutation spread too thin: no case put a boolean into message.input in 24 000 cases); caught after adding the exhaustive single-mutation stage (every node x every pool value)"),
 "C03-unicode-digit-hex": ("C03", "authorized segwit sign whose witnessScript (or receipt) is an even-length string of non-ASCII decimal digits: regex \\d validation accepts, bytes.fromhex raises outside any handler", "MISSED at first (string pool had no even-length non-ASCII digit strings); caught after extending the pool and adding the single-mutation stage to C03; also caught by C02"),
 "C04-enum-name-in-log": ("C04", "advanceBlockchain, fault exactly at the brother-list exchange, status word inside the device range but not an advance/update constant (ValueError from enum lookup inside the except block)", "caught as written (matrix covers every step x named + edge + sampled status words; thorough covers all)"),
 "C05-brothers-iterator": ("C05", "device skips the brothers of some block and asks for those of a later block in the same request (iterator advanced only on request)", "caught as written (ask pattern per block is generated)"),
 "C06-anchor-failed-target": ("C06", "targets list an ancestor before its descendant and a link at or above that ancestor fails (failed target reused as trust anchor)", "caught as written (any target subset/order x corruptions, independent chain walk)"),
 "C07-root-name-collision": ("C07", "certificate file bundles an element named like the root of trust (sgx_root) and the chain hangs off that foreign root (certifier looked up by name)", "MISSED at first (no generated certificate contained an element named sgx_root); caught after adding the 'bundled-root' corruption to C07 (C16 pool also extended)"),
 "C08-ud-value-from-ui": ("C08", "Ledger certificate whose signer message carries a UD value different from the UI message's (prints the UI's)", "caught as written (UI and signer UD values are drawn independently; printed values compared with signed ones)"),
 "C09-stale-version-cache": ("C09", "bootloader start with supported UI version, successful unlock, then an unsupported signer version (IS_ONBOARD reply cached across the mode switch)", "caught as written (grid has independent UI and signer versions)"),
 "C10-abort-removes-file": ("C10", "existing PIN file + forced change + device refuses or errors on the new PIN (abort_change deletes the file)", "caught as written (file0 present x force x refuse/error reactions)"),
 "C11-merkle-step-swallows-commerror": ("C11", "authorized sign with a write/read error during the merkle-proof exchanges only (a broad except swallows the comm error: reply is still -905 but the comm-issue flag is not set)", "caught as written (every exchange index x fault kind x follow-up x reconnection outcome)"),
 "C12-timeout-without-cancel": ("C12", "a multi-APDU request takes more than 10 s of cumulative device time while another client connects (request time-out without cancelling the worker)", "MISSED at first (device-side delays were at most 3 ms); caught after adding the 'slow-device' stage (exchanges of 0.6-1.4 s each, below the 10 s link time-out, adding up to more)"),
 "C13-parameters-cache": ("C13", "two blockchainParameters queries on one manager lifetime with the device's parameters changing in between (cache survives reconnection)", "MISSED at first by C13 (one query per fresh manager; C11 flagged it incidentally); caught after C13 was changed to histories of 1..3 queries over one manager with the device state changing between them"),
 "C14-empty-script-slice": ("C14", "transaction with an input whose script is empty (ops[-1:] instead of [ops[-1]])", "caught as written (malformed variant 'empty-script' through the protocol)"),
 "C15-add-element-setdefault": ("C15", "attestation run a second time starting from the certificate file the first run wrote (add_element no longer replaces ui/signer)", "MISSED at first (each flow gathered once); caught after adding the 'refresh' history (second attestation from the first one's output, new UD value and device state)"),
 "C16-cycle-excluding-target": ("C16", "target whose signer chain leads into a cycle that does not contain the target", "caught as written (cycle2/cycle3/self-signed defects with and without the target inside the cycle; watchdog)"),
 "C17-empty-signatures-success": ("C17", "authorization file with zero signatures (result stays None, taken as success)", "caught as written (0..10 signatures x thresholds)"),
 "C18-regex-dollar-newline": ("C18", "PIN given as an option consisting of 7 alphanumerics and a trailing newline (regex $ matches before it)", "MISSED at first (PIN classes had no control characters); caught after adding newline / CR / NUL / space / non-ASCII-digit PIN classes to C18 and near-valid probes to C10's validity-predicate stage"),
 "C19-message-reuses-old-file": ("C19", "signapp message -o <file> when <file> already holds an authorization written for another image", "MISSED at first (message was only printed, never written twice to one path); caught after C19 writes the authorization of each image of a run to the same output path and compares the embedded hash"),
 "C01-r2-btc-payload-cache": ("C01", "two consecutive authorized segwit sign requests for the same transaction with witness scripts of different length on one manager (payload prefix cached by (tx, mode))", "caught as written by the request histories added after round 1"),
 "C02-r2-reconnect-before-validation": ("C02", "a link failure on an accepted request, then a sign request that must be refused at the second validation stage (reconnection now happens before validation: device contacted for a refused request)", "MISSED at first (every request was classified on a fresh manager); caught after adding the 'reconnection pending' enumeration stage, where closing/re-opening the link counts as device contact"),
 "C03-r2-lazy-map-node-too-big": ("C03", "authorized sign whose merkle proof has a node > 255 bytes, after path, tx and receipt were accepted (lazy map moves the size check outside its handler)", "caught as written (oversized well-typed requests: proof-node-size 256/1000)"),
 "C04-r2-pubkey-cache": ("C04", "a getPubKey for the same path succeeded before on the same manager; later outcomes of the device are masked by the cached key", "MISSED at first by C04 (each cell on a fresh manager; C13 and C11 flagged it); caught after adding the 'after-a-successful-run' stage to C04"),
 "C05-r2-coinbase-hash-cache": ("C05", "a header with the same block hash sent again on the same manager with another coinbase transaction (hash cached by block hash)", "MISSED at first (second requests used unrelated headers); caught after adding related second requests (same hash-relevant fields, other merkle proof / coinbase)"),
 "C06-r2-memoised-chain-consumed": ("C06", "second validation of the same certificate object, or a target listed twice (memoised chain list consumed by pop)", "MISSED at first (one validation per loaded object, unique targets); caught after adding repeated validations with the same / another root and duplicate targets"),
 "C07-r2-signature-verified-flag": ("C07", "same certificate object validated first with the genuine root and then with another root (verified flag not tied to the certifier)", "MISSED at first; caught after adding repeated validations with the same / another root"),
 "C08-r2-natural-sort-paths": ("C08", "key set with two paths whose text order and numeric order differ (m/44'/2'/... next to m/44'/137'/...)", "caught as written (extra paths in the key pool)"),
 "C09-r2-finally-to-else": ("C09", "bootloader start with a PIN change needed, and the change fails (refused / time-out / commit failure): the manager carries on and serves", "MISSED at first by C09 (the grid's PIN change always succeeded; C10 flagged it); caught after adding the change-outcome dimension to the C09 grid"),
 "C10-r2-reconnect-swallows-interrupt": ("C10", "manager started with the device already in the signer and a PIN change pending, link failure, device back in bootloader: the change happens inside a request and the interrupt is swallowed", "MISSED at first (PIN changes were only driven through start-up); caught after adding the 'reconnect' stage to C10"),
 "C11-r2-none-handle-after-failed-connect": ("C11", "link failure, then a failed reconnection, then another request (handle set to None on a failed connect, unguarded in disconnect)", "caught as written (reconnection fails k = 1..3 times then succeeds)"),
 "C12-r2-background-recovery-thread": ("C12", "a link failure while clients are connected: reconnection started on a background thread races with the next request", "MISSED at first by C12 (schedules had no faults; C11 flagged it); caught after adding one link failure to a third of the schedules and the 'exchange outside any request' invariant"),
 "C13-r2-uihb-early-return": ("C13", "uiHeartbeat whose heartbeat generation fails on the device (status error inside UI-heartbeat mode): early return leaves the device in UI-heartbeat mode, the next uiHeartbeat reports success there", "MISSED at first (no device-side heartbeat failures; histories stopped when the device was not in signer mode); caught after adding one-shot heartbeat failures and continuing histories while the device obeys mode switches"),
 "C14-r2-cleared-txin-cache-by-outpoint": ("C14", "a second transaction spending an outpoint seen before with another script / sequence (module-level cache keyed by outpoint)", "caught as written (module state survives between generated cases of one worker, outpoints collide after shrinking and by design of the edge pool)"),
 "C15-r2-root-lru-cache-by-path": ("C15", "two SGX verifications in one interpreter with the root file changed in place between them (lru_cache keyed by path)", "caught as written (every case of a worker writes its root to the same path)"),
 "C16-r2-memoised-chain-pop": ("C16", "second validation of the same object, or a duplicated target (memoised chain consumed by pop)", "caught as written by the second-validation check added after round 1"),
 "C17-r2-signature-length-window": ("C17", "a valid DER signature shorter than 70 bytes (r or s below 2^247)", "caught as written (signatures by arbitrary keys over the digest; short ones occur)"),
 "C18-r2-askpin-drops-retry": ("C18", "PIN typed at the prompt, first entry rejected, second valid: the first entry is what reaches the device", "caught as written (typed-bad-then-valid input class)"),
 "C19-r2-dict-by-hash-collapses": ("C19", "two images with identical data areas in one one-time signing run (table keyed by hash)", "caught as written (shrunk / small images coincide; the set of written files is compared)"),
 "C01-r3-segwit-skips-unsigning": ("C01", "segwit-mode authorized sign whose transaction has an input with a non-empty non-final script operation (unsigning skipped in segwit mode)", "caught as written"),
 "C02-r3-rstrip-hardening-quotes": ("C02", "key id with a doubled hardening quote such as m/44''/0'/0'/0/0 (rstrip instead of one-character slice)", "caught as written (string pool has m/0'/0''/0/0/0; single-mutation enumeration)"),
 "C03-r3-struct-error-escapes": ("C03", "header with a non-merge-mining payload of 65536 bytes or more (struct.error is not an OverflowError)", "caught as written (oversize blocks; the fix-6 regression replays fail too)"),
 "C04-r3-except-exception-drops-write-error": ("C04", "a write-side link failure (bare BaseException) at any exchange", "caught as written (write outcome at every step), also by C11"),
 "C05-r3-partial-after-brother": ("C05", "device reports partial success right after consuming the last brother of the last block", "caught as written (final partial with brothers asked on the last block), also by C04's success-opcode cells"),
 "C06-r3-root-certifier-skips-tweak": ("C06", "element signed by the root that declares a tweak", "caught as written (tweaks on any element)"),
 "C07-r3-naive-local-time-as-utc": ("C07", "verification host not on UTC and a certificate that expired / starts within the UTC offset (naive local time labelled UTC)", "MISSED at first (the fake clock behaved like a UTC host); caught after the clock got a host UTC offset as a case dimension and windows within one hour of the boundary"),
 "C08-r3-message-sliced-to-length": ("C08", "current-format powHSM message with trailing bytes (sliced to the expected length before the comparison)", "caught as written (msg-extended variant, Ledger and SGX)"),
 "C09-r3-supports-drops-minor-clause": ("C09", "firmware with a newer minor and patch 0 or 1 (5.5.0, 5.5.1, ...)", "caught as written (3x3x3 version grid)"),
 "C10-r3-isvalid-length-as-anypin": ("C10", "first candidate drawn by the PIN generator is all digits (length passed where any_pin is expected)", "caught as written (generator under a harness-controlled random source)"),
 "C11-r3-v1-flag-on-wrong-object": ("C11", "legacy mode sign hit by a write/read error (flag set on the v1 object)", "caught as written"),
 "C12-r3-shared-handler-stale-reply": ("C12", "a request that ends on a path where the manager stops (protocol interrupt on reconnection, or an unexpected exception) is answered with the previous client's reply (handler object and its reply shared between connections)", "MISSED at first (all scheduled requests end normally; the only in-protocol stop path leaks a bare error code, which is indistinguishable from an own reply); caught after adding the 'stop-path' stage, which also uses one out-of-protocol device answer (truncated heartbeat signature) to reach the generic exception path - same oracle, wider domain than the property's quantifier"),
 "C13-r3-difficulty-strip-both-ends": ("C13", "total difficulty whose least significant byte is zero (strip instead of lstrip)", "caught as written (difficulty pool has 256, 2^287 and random 1..36-byte values)"),
 "C14-r3-skip-rebuild-when-nothing-to-clear": ("C14", "input whose non-final operations are all empty and whose last push is not minimally encoded, or placeholders written as 4c00", "caught as written (pair relation and canonical-form oracle)"),
 "C15-r3-ui-page-limit-off-by-one": ("C15", "UI attestation message delivered in exactly 4 pages", "caught as written (page size 28 gives 4 pages)"),
 "C16-r3-validation-walk-ends-elsewhere": ("C16", "version-2 document with an element named sgx_root that is self-signed or leads back to itself", "caught as written (sgx_root in the name pool since round 1; watchdog on validation)"),
 "C17-r3-signed-short-iteration": ("C17", "iteration in 32768..65535 (struct format h instead of H)", "caught as written (65535 and random iterations)"),
 "C18-r3-yes-substring": ("C18", "empty line, y, e, s, ye or es at the confirmation prompt (substring test)", "caught as written (y-then-no and empty-then-no answers)"),
 "C19-r3-pubkey-short-coordinates": ("C19", "generated key whose public point has a coordinate below 2^248 (about 1 run in 128)", "caught as written (enough signing runs per check; public key file must be 65 bytes)"),
}


def main():
    for name, (prop, needs, how) in T.items():
        d = os.path.join(HERE, "seeded", name)
        if not os.path.isdir(d):
            continue
        ev = open(os.path.join(d, "eval.txt")).read() if os.path.exists(os.path.join(d, "eval.txt")) else ""
        meta = {
            "breaks_property": prop,
            "needs_to_manifest": needs,
            "author": "fresh sub-agent given only the property text and a scratch worktree",
            "confirmed": {
                "existing_suite_with_change": "468 passed, 25 errors" if "468 passed, 25 errors" in ev else "see eval.txt",
                "demo_on_original_exit": 0 if "demo-original: exit=0" in ev else None,
                "demo_on_changed_exit_nonzero": "demo-changed: exit=0" not in ev,
            },
            "what_was_run": ["tools/seeded_eval seeded/%s %s   (scratch copy of /repo + patch.diff under /tmp, removed afterwards; pytest there; demo.py against /repo and against the copy; ./check %s --tier quick with VERIF_REPO=<copy>)" % (name, prop, prop)],
            "detected_by_check": "VIOLATION" in ev,
            "detection_history": how,
            "last_eval": ev.strip().splitlines(),
        }
        json.dump(meta, open(os.path.join(d, "meta.json"), "w"), indent=1)
        print(name, "detected" if meta["detected_by_check"] else "NOT DETECTED")


if __name__ == "__main__":
    main()
