"""C06 - a Ledger attestation is accepted only if every link up to the root key verifies."""
import json
import os
import shutil
import tempfile

from hypothesis import strategies as st

from vlib.core import Violation, Out, HarnessError
from vlib.runner import HypStage
from vlib import env
from vlib.certs import (V1Cert, V1_NAMES, sk_from_int, pub_uncompressed, pub_compressed, tweaked_sk, sign,
                        v1_message_for)

env.prepare()
from admin.certificate import HSMCertificate, HSMCertificateRoot   # noqa: E402

ID = "C06"
LEVEL = "exploration"
RULE = ("Hypothesis-generated version-1 certificates: any forest over {device, attestation, ui, "
        "signer} rooted at the root key (depth 1..4, shared ancestors, wrong parents), any "
        "non-empty target subset, tweaks on any element, 0..2 corruptions (bit flips in message / "
        "signature / tweak / embedded key, swapped signatures, signature by another key, dropped "
        "or added tweak, re-keyed parent, wrong root, DER with trailing bytes); targets may repeat; "
        "the loaded object is validated 1..4 times (same root again / another root); non-trivial = >= "
        "1 corruption, or depth >= 3 with a tweak; distinct by case fingerprint")
ASSUMPTIONS = [
    "expected verdicts from an independent chain walk with the pure-Python ecdsa package and "
    "explicit tweak point addition; the code under test verifies with libsecp256k1",
    "high-S signatures and hybrid key encodings are ambiguous between libraries and not asserted",
]
REQUIRED_LABELS = {t: ["valid:%s" % n for n in V1_NAMES] + ["invalid:%s" % n for n in V1_NAMES] +
                   ["corruptions:0", "corruptions:1", "corruptions:2", "depth:3", "depth:4",
                    "tweak", "revalidated:same", "revalidated:other", "duplicate-target",
                    "compressed-key", "applied:key-field-reshaped", "edited-between-validations"]
                   for t in ("quick", "thorough")}
CORR = ["flip-message", "flip-signature", "flip-tweak", "swap-signatures", "other-key",
        "drop-tweak", "add-tweak", "rekey", "wrong-root", "der-trailing", "flip-embedded-key",
        "key-field-reshaped"]


@st.composite
def cases(draw, tier):
    names = draw(st.permutations(V1_NAMES))
    n = draw(st.integers(1, 4))
    names = list(names[:n])
    els = []
    for i, nm in enumerate(names):
        parent = "root" if i == 0 or draw(st.integers(0, 3)) == 0 else names[i - 1] if draw(st.booleans()) else \
            names[draw(st.integers(0, i - 1))]
        els.append({"name": nm, "parent": parent, "key": draw(st.integers(1, 2 ** 256)),
                    "tweak": draw(st.one_of(st.none(), st.none(),
                                            st.binary(min_size=1, max_size=40))),
                    "filler": draw(st.binary(min_size=0, max_size=30)),
                    # how the element's own key is written in its message (where the format
                    # leaves a choice)
                    "key_form": draw(st.sampled_from(["uncompressed", "uncompressed",
                                                      "compressed"])),
                    "payload": draw(st.binary(min_size=1, max_size=120))})
    targets = draw(st.one_of(
        st.lists(st.sampled_from(names), min_size=1, max_size=4, unique=True),
        st.lists(st.sampled_from(names), min_size=1, max_size=5)))       # may repeat a target
    corr = []
    for _ in range(draw(st.sampled_from([0, 1, 1, 1, 2]))):
        corr.append({"kind": draw(st.sampled_from(CORR)), "el": draw(st.sampled_from(names)),
                     "el2": draw(st.sampled_from(names)), "bit": draw(st.integers(0, 4000)),
                     "key": draw(st.integers(1, 2 ** 256)),
                     "extra": draw(st.binary(min_size=1, max_size=4))})
    return {"root": draw(st.integers(1, 2 ** 256)), "elements": els, "targets": targets,
            "corruptions": corr,
            # further validations of the SAME loaded object: 'same' root again, or another root
            "again": draw(st.lists(st.sampled_from(["same", "other", "same"]), max_size=3)),
            "other_root": draw(st.integers(1, 2 ** 256)),
            # an edit of the loaded object between validations: one element is replaced (as
            # gathering a new attestation into an existing certificate does) by what one more
            # corruption / re-keying makes of it
            "edit": draw(st.one_of(st.none(), st.fixed_dictionaries({
                "kind": st.sampled_from(["rekey", "rekey", "flip-message", "flip-signature",
                                         "other-key", "flip-embedded-key"]),
                "el": st.sampled_from(names), "el2": st.sampled_from(names),
                "bit": st.integers(0, 4000), "key": st.integers(1, 2 ** 256),
                "extra": st.binary(min_size=1, max_size=4)})))}


def flip(b, bit):
    if not b:
        return b
    bit %= len(b) * 8
    ba = bytearray(b)
    ba[bit // 8] ^= 1 << (bit % 8)
    return bytes(ba)


def build(c):
    root_sk = sk_from_int(c["root"])
    sks = {"root": root_sk}
    spec = {e["name"]: e for e in c["elements"]}
    children = {e["name"]: [x["name"] for x in c["elements"] if x["parent"] == e["name"]]
                for e in c["elements"]}
    cert = V1Cert()
    for e in c["elements"]:
        sks[e["name"]] = sk_from_int(e["key"])
    for e in c["elements"]:
        nm = e["name"]
        pub = pub_uncompressed(sks[nm])
        if e.get("key_form") == "compressed" and nm != "device":
            pub = pub_compressed(sks[nm])
        if nm in ("ui", "signer") and not children[nm]:
            msg = e["payload"]
        else:
            msg = v1_message_for(nm, pub, e["filler"])
        signer = sks[e["parent"]]
        if e["tweak"] is not None:
            signer = tweaked_sk(signer, e["tweak"])
        cert.elements[nm] = {"signed_by": e["parent"], "message": msg,
                             "signature": sign(signer, msg), "tweak": e["tweak"]}
        cert.order.append(nm)
    cert.targets = list(c["targets"])
    root_pub = pub_uncompressed(root_sk)

    def resign(nm):
        e = cert.elements[nm]
        signer = sks[e["signed_by"]]
        if e["tweak"] is not None:
            signer = tweaked_sk(signer, e["tweak"])
        e["signature"] = sign(signer, e["message"])
    applied = []
    for k in c["corruptions"]:
        e = cert.elements[k["el"]]
        kind = k["kind"]
        if kind == "flip-message":
            e["message"] = flip(e["message"], k["bit"])
        elif kind == "flip-signature":
            e["signature"] = flip(e["signature"], k["bit"])
        elif kind == "flip-tweak":
            if e["tweak"] is not None:
                e["tweak"] = flip(e["tweak"], k["bit"])
        elif kind == "swap-signatures":
            e2 = cert.elements[k["el2"]]
            e["signature"], e2["signature"] = e2["signature"], e["signature"]
        elif kind == "other-key":
            e["signature"] = sign(sk_from_int(k["key"]), e["message"])
        elif kind == "drop-tweak":
            e["tweak"] = None
        elif kind == "add-tweak":
            if e["tweak"] is None:
                e["tweak"] = k["extra"]
        elif kind == "rekey":
            if len(e["message"]) >= 65:
                e["message"] = e["message"][:-65] + pub_uncompressed(sk_from_int(k["key"]))
                resign(k["el"])
        elif kind == "flip-embedded-key":
            if len(e["message"]) >= 65:
                m = e["message"]
                e["message"] = m[:-65] + flip(m[-65:], k["bit"])
                resign(k["el"])
        elif kind == "key-field-reshaped":
            # the message still ENDS with the element's key, but what the format says is the
            # key (all but the first byte of an attestation message, the whole ui / signer
            # message) is not one any more: nothing this element certifies can be valid
            if k["el"] != "device" and children[k["el"]]:
                m = e["message"]
                key = m[1:] if k["el"] == "attestation" else m
                e["message"] = (m[:1] if k["el"] == "attestation" else b"") + \
                    k["extra"][:1 + len(k["extra"]) % 2] + key
                resign(k["el"])
                applied.append(kind)
        elif kind == "wrong-root":
            root_pub = pub_uncompressed(sk_from_int(k["key"]))
        elif kind == "der-trailing":
            e["signature"] = e["signature"] + k["extra"]
    cert.applied = applied
    return cert, root_pub


_TMP = {}


def tmpfile(name):
    pid = os.getpid()
    if pid not in _TMP:
        _TMP[pid] = tempfile.mkdtemp(prefix="verif-c06-")
        import atexit
        atexit.register(shutil.rmtree, _TMP[pid], True)
    return os.path.join(_TMP[pid], name)


def depth_of(c):
    par = {e["name"]: e["parent"] for e in c["elements"]}
    best = 0
    for t in c["targets"]:
        d, cur = 1, t
        while par[cur] != "root":
            cur = par[cur]
            d += 1
        best = max(best, d)
    return best


def run_case(c):
    cert, root_pub = build(c)
    expected = cert.expected(root_pub)
    if not c["corruptions"]:
        for t, v in expected.items():
            if v == "ambiguous" or v[0] is not True:
                raise HarnessError("uncorrupted certificate not valid for the independent "
                                   "verifier: %r" % (v,))
    path = tmpfile("cert.json")
    with open(path, "w") as f:
        json.dump(cert.to_dict(), f)
    loaded = HSMCertificate.from_jsonfile(path)
    labels = ["corruptions:%d" % len(c["corruptions"])]
    for k in c["corruptions"]:
        labels.append("corr:" + k["kind"])
    for k in cert.applied:
        labels.append("applied:" + k)
    if any(e.get("key_form") == "compressed" and e["name"] != "device" for e in c["elements"]):
        labels.append("compressed-key")
    if len(set(cert.targets)) != len(cert.targets):
        labels.append("duplicate-target")
    rounds = [("first", root_pub)]
    for a in c.get("again", []):
        rounds.append((a, root_pub if a == "same" else pub_uncompressed(sk_from_int(
            c["other_root"]))))
    root_objs = {}
    for rnd, (what, rp) in enumerate(rounds):
        expected = cert.expected(rp)
        # (one root object per key: a caller validating again hands over the object it has)
        got = loaded.validate_and_get_values(root_objs.setdefault(rp, HSMCertificateRoot(
            rp.hex())))
        if rnd > 0:
            labels.append("revalidated:" + what)
        where = "validation #%d of the same object (%s root)" % (rnd + 1, what)
        if set(got) != set(expected):
            raise Violation("targets-differ", "%s: got %r expected %r" % (
                where, sorted(got), sorted(expected)))
        for t in dict.fromkeys(cert.targets):
            exp = expected[t]
            if exp == "ambiguous":
                labels.append("ambiguous")
                continue
            g = got[t]
            if tuple(g) != tuple(exp):
                if exp[0] and not g[0]:
                    sig = "valid-chain-rejected"
                elif g[0] and not exp[0]:
                    sig = "invalid-chain-accepted"
                elif not g[0]:
                    sig = "wrong-failing-element"
                else:
                    sig = "wrong-value"
                raise Violation(sig, "%s, target %s: code says %r, independent walk says %r; "
                                "certificate %s" % (where, t, g, exp,
                                                    json.dumps(cert.to_dict())[:1500]))
            if rnd == 0:
                labels.append(("valid:%s" % t) if exp[0] else ("invalid:%s" % exp[1]))
    if c.get("edit") and not any(k["kind"] == "wrong-root" for k in c["corruptions"]):
        c2 = dict(c, corruptions=list(c["corruptions"]) + [c["edit"]])
        cert2, root_pub2 = build(c2)
        before = {e["name"]: e for e in cert.to_dict()["elements"]}
        changed = [e for e in cert2.to_dict()["elements"] if before.get(e["name"]) != e]
        if changed and root_pub2 == root_pub:
            from admin.certificate import HSMCertificateElement
            for e in changed:
                loaded.add_element(HSMCertificateElement(e))
            expected = cert2.expected(root_pub)
            got = loaded.validate_and_get_values(root_objs[root_pub])
            labels.append("edited-between-validations")
            for t in dict.fromkeys(cert.targets):
                exp = expected[t]
                if exp == "ambiguous":
                    continue
                if tuple(got[t]) != tuple(exp):
                    raise Violation("verdict-after-replacing-an-element", "element(s) %s "
                                    "replaced in a certificate validated before; target %s: "
                                    "code says %r, independent walk of the edited certificate "
                                    "says %r; certificate %s" % (
                                        [e["name"] for e in changed], t, got[t], exp,
                                        json.dumps(cert2.to_dict())[:1500]))
    d = depth_of(c)
    labels.append("depth:%d" % d)
    has_tweak = any(e["tweak"] is not None for e in c["elements"])
    if has_tweak:
        labels.append("tweak")
    return Out(labels, bool(c["corruptions"]) or (d >= 3 and has_tweak))


def stages(tier):
    return [HypStage("chains", lambda t: cases(t), run_case, {"quick": 250, "thorough": 8000},
                     budget_s={"quick": 300, "thorough": 1200})]
