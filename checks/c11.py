"""C11 - link failures get a device-error reply and are repaired on the next request."""
import itertools
import json

from hypothesis import strategies as st

from vlib.core import Violation, Out
from vlib.runner import EnumStage, HypStage
from vlib import mw
from vlib.device import SIGNER
from checks import c04

ID = "C11"
LEVEL = "fault_enumeration"
RULE = ("complete enumeration of (request in both protocol modes, exchange index, fault kind in "
        "{write error, read error, timeout}, follow-up request, reconnection outcome in {ok, "
        "connect fails 1..3 times then ok}) for the Ledger manager, a thinner grid for the "
        "TCPSigner and SGX managers (their own connect / disconnect classes), plus Hypothesis histories of 2..5 requests with "
        "several faults; non-trivial = fault at index >= 1 of a multi-exchange command, or a "
        "history with >= 2 faults; distinct by cell / history")
ASSUMPTIONS = [
    "faults are raised by the simulated transport with the exception shapes hsm2dongle.py "
    "classifies (BaseException('Error while writing'), OSError('read error'), "
    "CommException('Timeout', 0x6F00))",
    "the two exit_app exchanges of uiHeartbeat are exempt (the code expects the link to drop "
    "there); a device left in UI-heartbeat mode by an interrupted uiHeartbeat may stop the "
    "manager at the next bring-up, as C09 prescribes",
]

KINDS = ["write", "read", "timeout"]
FOLLOW = {"v5": [k[1] for k in c04.PLAIN_NAMES if k[0] == "v5"],
          "v1": [k[1] for k in c04.PLAIN_NAMES if k[0] == "v1"]}
def _observed_bringup():
    """The APDU commands the real bring-up sends to a device found in signer mode, observed
    once from the code under test (so that the repair is compared with 'the full bring-up
    checks' whatever they are, not with a list frozen in the harness)."""
    w = mw.default_world()
    mw.stack(w)
    return [a[1] for a in w.apdus()]


BRINGUP = _observed_bringup()


def cells(tier, seed):
    pl = c04.plan()
    out = []
    for key in c04.PLAIN_NAMES:
        for i in range(len(pl[key])):
            for kind in KINDS:
                for f in FOLLOW[key[0]]:
                    for k in (0, 1, 2, 3):
                        out.append({"m": key[0], "r": key[1], "i": i, "kind": kind,
                                    "follow": f, "k": k})
                    if i == 0:
                        # the exchange just before the fault ended with a refusal by the device
                        out.append({"m": key[0], "r": key[1], "i": i, "kind": kind,
                                    "follow": f, "k": 0, "prelude": 0x6A8F})
    return out


def serve(h, w, key):
    mark = len(w.log)
    out, exc = mw.serve_line(h, json.dumps(c04.REQS[key]).encode())
    mw.check_sim(w)
    return mw.parse_reply(out), exc, w.log[mark:], out


def events(ev):
    res = []
    for e in ev:
        if e[0] == "apdu":
            res.append(e[2][1])
        elif e[0] in ("close", "connect", "connect_fail"):
            res.append(e[0])
    return res


def devcode(m):
    return -905 if m == "v5" else -2


def check_followups(h, w, p, m, follow_key, k, where, repair_expected, labels):
    """After a faulted request: k failing reconnections, then a served request."""
    attempts = (k if repair_expected else 0) + 1
    for a in range(attempts):
        last = a == attempts - 1
        # the device cannot be found at all while one of the first k follow-ups is served
        # (however often the manager looks for it), and is back for the last one
        w.connect_failures = 0 if last else 10 ** 6
        dev_mode_before = w.mode
        rep, exc, ev, out = serve(h, w, follow_key)
        evs = events(ev)
        if exc is not None:
            if dev_mode_before != SIGNER:
                # e.g. an interrupted uiHeartbeat left the device in UI-heartbeat mode: what
                # the next request does then is C09's / C13's matter
                labels.append("stopped-device-not-in-signer")
                return
            raise Violation("follow-up-shutdown", "%s: follow-up #%d raised %s: %s" % (
                where, a + 1, type(exc).__name__, str(exc)[:200]))
        if rep is None:
            raise Violation("follow-up-no-reply", "%s: follow-up #%d output %r" % (
                where, a + 1, out[:100]))
        if not repair_expected:
            labels.append("follow-up-after-timeout:%d" % rep["errorcode"])
            return
        if not last:
            if rep["errorcode"] != devcode(m):
                raise Violation("reconnect-failure-not-device-error",
                                "%s: follow-up #%d with failing reconnection -> %r" % (
                                    where, a + 1, rep))
            if any(isinstance(x, int) for x in evs):
                raise Violation("apdu-sent-without-connection", "%s: follow-up #%d events %r"
                                % (where, a + 1, evs))
            if "connect_fail" not in evs:
                raise Violation("no-reconnection-attempt", "%s: follow-up #%d events %r" % (
                    where, a + 1, evs))
            if a == 0 and evs[:1] != ["close"]:
                raise Violation("no-close-before-reconnect", "%s: events %r" % (where, evs))
            labels.append("retry-after-connect-failure")
        else:
            # closes and re-opens (a retry may close again: harmless), then the full bring-up
            if a == 0 and evs[:1] != ["close"]:
                raise Violation("no-close-before-reconnect", "%s: events %r" % (where, evs))
            while evs[:1] == ["close"]:
                evs = evs[1:]
            want_prefix = ["connect"] + BRINGUP
            if evs[:len(want_prefix)] != want_prefix:
                raise Violation("repair-sequence", "%s: follow-up #%d events %r, expected to "
                                "start with %r" % (where, a + 1, evs[:10], want_prefix))
            cmd_apdus = evs[len(want_prefix):]
            if not any(isinstance(x, int) for x in cmd_apdus):
                raise Violation("no-command-after-repair", "%s: events %r" % (where, evs))
            if rep["errorcode"] != 0:
                raise Violation("follow-up-not-served", "%s: follow-up #%d -> %r" % (
                    where, a + 1, rep))
            labels.append("repaired")


def run_case(c):
    key = (c["m"], c["r"])
    kinds = c04.plan()[key]
    i, kind = c["i"], c["kind"]
    w, p = c04.fresh(key)
    h = mw.handler(p)
    labels = ["kind:" + kind, "req:%s/%s" % key, "k:%d" % c["k"]]
    if c.get("prelude"):
        w.faults[w.nex] = c["prelude"]
        rep0, exc0, ev0, out0 = serve(h, w, (c["m"], "getPubKey"))
        if exc0 is not None or rep0 is None or rep0["errorcode"] >= 0:
            return Out(labels + ["prelude-precondition-not-met"], False)
        w.faults.clear()
        labels.append("after-device-refusal")
    w.faults[w.nex + i] = kind
    where = "%s/%s fault %s at exchange %d (%s)%s" % (
        c["m"], c["r"], kind, i, kinds[i],
        " right after a request the device refused" if c.get("prelude") else "")
    rep, exc, ev, out = serve(h, w, key)
    if exc is not None:
        raise Violation("faulted-request-shutdown", "%s: handler raised %s: %s" % (
            where, type(exc).__name__, str(exc)[:200]))
    if rep is None:
        raise Violation("faulted-request-no-reply", "%s: output %r" % (where, out[:100]))
    exit_step = c["r"] == "uiHb" and kinds[i] == "exit"
    if exit_step and kind != "timeout":
        if rep["errorcode"] not in (0, devcode(c["m"])):
            raise Violation("exit-step-code", "%s -> %r" % (where, rep))
        labels.append("exempt-exit-step")
        rep2, exc2, ev2, out2 = serve(h, w, (c["m"], c["follow"]))
        if rep2 is None or (exc2 is not None and w.mode == SIGNER):
            raise Violation("follow-up-after-exit-fault", "%s: %r %r" % (where, out2[:80], exc2))
        return Out(labels, i >= 1)
    if rep["errorcode"] != devcode(c["m"]):
        raise Violation("faulted-request-code", "%s -> %r (expected %d)" % (
            where, rep, devcode(c["m"])))
    check_followups(h, w, p, c["m"], (c["m"], c["follow"]), c["k"], where, kind != "timeout",
                    labels)
    return Out(labels, i >= 1 and len(kinds) > 1)


# ---------------------------------------------------------------- the other transports

TRANSPORT_REQS = ["getPubKey", "sign_auth", "sign_unauth", "advance", "state"]


def transport_cells(tier, seed):
    """The TCPSigner and SGX managers share the protocol object but open, close and re-open
    their connection through classes of their own: a thinner grid over them."""
    pl = c04.plan()
    out = []
    for tr in ("TCP", "SGX"):
        for key in c04.PLAIN_NAMES:
            if key[0] != "v5" or key[1] not in TRANSPORT_REQS:
                continue
            n = len(pl[key])
            for i in sorted(set([0, 1, n // 2, n - 1]) & set(range(n))):
                for kind in KINDS:
                    for k in (0, 2):
                        out.append({"m": key[0], "r": key[1], "i": i, "kind": kind,
                                    "follow": "getPubKey", "k": k, "transport": tr})
    return out


def run_transport_case(c):
    from comm.platform import Platform
    saved = mw.TRANSPORT[0]
    mw.TRANSPORT[0] = c["transport"]
    Platform.set(Platform.X86 if c["transport"] == "TCP" else Platform.SGX)
    try:
        out = run_case(c)
        return Out(list(out.labels) + ["transport:" + c["transport"]], out.nontrivial)
    finally:
        mw.TRANSPORT[0] = saved
        Platform.set(Platform.LEDGER)


# ---------------------------------------------------------------- faults during the repair itself

def repair_fault_cells(tier, seed):
    out = []
    for m in ("v5", "v1"):
        for first in FOLLOW[m][:3]:
            for j in range(len(BRINGUP)):
                for kind in KINDS:
                    for f in FOLLOW[m]:
                        out.append({"m": m, "first": first, "j": j, "kind": kind, "follow": f})
    return out


def run_repair_fault(c):
    """Link failure, then the repairing request meets a fault in exchange j of the repeated
    bring-up: unless the manager stops there, that request is answered with the device-error
    code and the FOLLOWING request repeats the whole repair before any command APDU."""
    m = c["m"]
    w, p = c04.fresh((m, c["first"]))
    h = mw.handler(p)
    w.faults[w.nex] = "read"
    rep, exc, ev, out = serve(h, w, (m, c["first"]))
    where = "%s: link failure in %s, then %s in bring-up exchange %d of the repair" % (
        m, c["first"], c["kind"], c["j"])
    labels = ["repair-fault:" + c["kind"]]
    if exc is not None or rep is None or rep["errorcode"] != devcode(m):
        raise Violation("faulted-request-code", "%s: first request -> %r %r" % (where, out[:60],
                                                                             exc))
    w.faults[w.nex + c["j"]] = c["kind"]
    rep2, exc2, ev2, out2 = serve(h, w, (m, c["follow"]))
    if exc2 is not None:
        labels.append("stopped-during-repair")      # not prescribed either way
        return Out(labels, False)
    if rep2 is None:
        raise Violation("follow-up-no-reply", "%s: output %r" % (where, out2[:100]))
    if rep2["errorcode"] != devcode(m):
        raise Violation("failed-repair-not-device-error", "%s: request -> %r, events %r" % (
            where, rep2, events(ev2)[:12]))
    rep3, exc3, ev3, out3 = serve(h, w, (m, c["follow"]))
    evs = [x for x in events(ev3) if x != "close"]
    if exc3 is not None or rep3 is None:
        raise Violation("follow-up-shutdown", "%s: third request %r %r" % (where, out3[:60],
                                                                          exc3))
    want = ["connect"] + BRINGUP
    if evs[:len(want)] != want:
        raise Violation("repair-not-retried", "%s: the request after the failed repair sent %r, "
                        "expected it to start with %r" % (where, evs[:10], want))
    if rep3["errorcode"] != 0:
        raise Violation("follow-up-not-served", "%s: third request -> %r" % (where, rep3))
    labels.append("repair-retried-after-failed-repair")
    return Out(labels, True)


# ---------------------------------------------------------------- the device comes back unfit

def unfit_cases(tier, seed):
    return [{"m": m, "kind": kind, "version": v, "times": n, "follow": f}
            for m in ("v5", "v1") for kind in ("read", "write")
            for v in ([5, 4, 2], [5, 5, 0], [6, 0, 0]) for n in (1, 2, 3)
            for f in FOLLOW[m][:2]]


def run_unfit(c):
    """After a link failure the device that answers again runs an unsupported signer version:
    every request gets the device-error code for as long as that lasts (the repair fails its
    bring-up checks each time anew), and is served once a supported device is back."""
    m = c["m"]
    w, p = c04.fresh((m, "getPubKey"))
    h = mw.handler(p)
    good = w.signer_version
    w.faults[w.nex] = c["kind"]
    rep, exc, ev, out = serve(h, w, (m, "getPubKey"))
    if exc is not None or rep is None or rep["errorcode"] != devcode(m):
        raise Violation("faulted-request-code", "%r: %r %r" % (c, out[:60], exc))
    w.signer_version = tuple(c["version"])
    for n in range(c["times"]):
        rep, exc, ev, out = serve(h, w, (m, c["follow"]))
        where = "%r, request #%d while the device runs %r" % (c, n + 1, c["version"])
        if exc is not None:
            return Out(["unfit:stopped"], False)        # stopping is what C09 asks for
        if rep is None or rep["errorcode"] != devcode(m):
            raise Violation("served-by-unsupported-device", "%s -> %r, events %r" % (
                where, out[:80], events(ev)[:12]))
    w.signer_version = good
    rep, exc, ev, out = serve(h, w, (m, c["follow"]))
    if exc is not None or rep is None or rep["errorcode"] != 0:
        raise Violation("follow-up-not-served", "%r: supported device back -> %r %r" % (
            c, out[:80], exc))
    return Out(["unfit:refused-then-served"], True)


# ---------------------------------------------------------------- the device was power-cycled

def power_cycle_cases(tier, seed):
    from vlib.device import BOOT
    return [{"platform": plat, "start": start, "cycles": n, "follow": f, "kind": kind}
            for plat in ("Ledger", "SGX") for start in (BOOT, SIGNER) for n in (1, 2)
            for f in ("state", "getPubKey", "sign_unauth") for kind in ("read", "write")]


def run_power_cycle(c):
    """A manager that holds the PIN; the link fails because the device was power-cycled, so the
    repairing request finds it locked in the bootloader: the full bring-up (unlock included)
    is repeated before the command, as often as that happens."""
    import os
    import tempfile
    from vlib.device import BOOT
    import ledger.hsm2dongle as hd
    from sgx.hsm2dongle import HSM2DongleSGX
    from ledger.protocol import HSM2ProtocolLedger
    from ledger.pin import FileBasedPin
    from comm.platform import Platform
    w = mw.default_world()
    w.adv_plan = {"final": "total"}
    w.sig_der = c04.DER
    w.mode = c["start"]
    w.unlocked = c["start"] == SIGNER
    w.pin = b"abcd1234"
    w.post_mode = SIGNER
    d = tempfile.mkdtemp(prefix="verif-c11-")
    pf = os.path.join(d, "pin.txt")
    with open(pf, "wb") as f:
        f.write(w.pin)
    labels = ["power-cycle", "power-cycle:" + c["platform"]]
    mw.install(w)
    Platform.set(Platform.LEDGER if c["platform"] == "Ledger" else Platform.SGX)
    try:
        dongle = hd.HSM2Dongle(False) if c["platform"] == "Ledger" else \
            HSM2DongleSGX("h", 1, False)
        p = HSM2ProtocolLedger(FileBasedPin(pf, w.pin, False), dongle)
        p.initialize_device()
        h = mw.handler(p)
        for n in range(c["cycles"]):
            where = "%r, power cycle %d" % (c, n + 1)
            w.faults[w.nex] = c["kind"]
            rep, exc, ev, out = serve(h, w, ("v5", "getPubKey"))
            if exc is not None or rep is None or rep["errorcode"] != -905:
                raise Violation("faulted-request-code", "%s: %r %r" % (where, out[:60], exc))
            w.mode = BOOT
            w.unlocked = False
            rep, exc, ev, out = serve(h, w, ("v5", c["follow"]))
            evs = events(ev)
            if exc is not None:
                raise Violation("follow-up-shutdown", "%s: the request that found the device "
                                "locked in the bootloader raised %s: %s" % (
                                    where, type(exc).__name__, str(exc)[:200]))
            if rep is None or rep["errorcode"] != 0:
                raise Violation("follow-up-not-served", "%s: -> %r, events %r" % (
                    where, out[:80], evs[:14]))
            if "connect" not in evs or not any(e[0] == "unlock_attempt" for e in ev):
                raise Violation("repair-sequence", "%s: no re-connection / unlock in %r" % (
                    where, evs[:14]))
            labels.append("repaired-through-bootloader")
    finally:
        Platform.set(Platform.LEDGER)
        import shutil
        shutil.rmtree(d, True)
    return Out(labels, True)


# ---------------------------------------------------------------- histories with several faults

@st.composite
def histories(draw, tier):
    m = draw(st.sampled_from(["v5", "v5", "v5", "v1"]))
    names = [k[1] for k in c04.PLAIN_NAMES if k[0] == m and k[1] != "uiHb"]
    steps = []
    for _ in range(draw(st.integers(2, 5))):
        r = draw(st.sampled_from(names))
        fault = None
        if draw(st.integers(0, 2)) > 0:
            fault = {"i": draw(st.integers(0, 30)), "kind": draw(st.sampled_from(KINDS))}
        steps.append({"r": r, "fault": fault, "k": draw(st.sampled_from([0, 0, 1, 2]))})
    return {"m": m, "steps": steps}


def run_history(c):
    m = c["m"]
    pl = c04.plan()
    w, p = c04.fresh((m, "getPubKey"))
    h = mw.handler(p)
    pending_repair = False
    after_timeout = False
    nfaults = 0
    labels = ["history"]
    for n, s in enumerate(c["steps"]):
        key = (m, s["r"])
        f = s["fault"]
        where = "history step %d %s" % (n, s)
        if after_timeout:
            # whether the request after a time-out repairs the link is not prescribed: it is
            # served without a fault and only has to succeed
            after_timeout = False
            rep, exc, ev, out = serve(h, w, key)
            if exc is not None or rep is None or rep["errorcode"] != 0:
                raise Violation("history-after-timeout-not-served", "%s -> %r %r" % (
                    where, out[:80], exc))
            labels.append("after-timeout")
            continue
        if pending_repair:
            w.connect_failures = 10 ** 6 if s["k"] > 0 else 0
        mark = len(w.log)
        if f is not None:
            # exchange index counted among the command's own exchanges, after any repair
            idx = f["i"] % len(pl[key])
            extra = len(BRINGUP) if (pending_repair and w.connect_failures == 0) else 0
            if pending_repair and w.connect_failures > 0:
                f = None          # the request will not reach the device at all
            else:
                fault_at = w.nex + extra + idx
                w.faults[fault_at] = f["kind"]
        rep, exc, ev, out = serve(h, w, key)
        if f is not None and w.nex <= fault_at:
            # the request made fewer exchanges than planned (answered from what an earlier one
            # left behind): the link never failed, the request counts as un-faulted
            w.faults.pop(fault_at, None)
            f = None
            labels.append("fault-not-reached")
        evs = events(ev)
        if exc is not None:
            raise Violation("history-shutdown", "%s raised %s: %s" % (where, type(exc).__name__,
                                                                       str(exc)[:200]))
        if rep is None:
            raise Violation("history-no-reply", "%s output %r" % (where, out[:100]))
        if pending_repair:
            if s["k"] > 0:
                if rep["errorcode"] != devcode(m) or any(isinstance(x, int) for x in evs):
                    raise Violation("history-failed-reconnect", "%s -> %r, events %r" % (
                        where, rep, evs))
                w.connect_failures = 0      # next request finds the device again
                labels.append("retry-after-connect-failure")
                continue
            pre = [x for x in evs if x != "close"][:1 + len(BRINGUP)]
            if pre != ["connect"] + BRINGUP:
                raise Violation("history-repair-sequence", "%s events %r" % (where, evs[:10]))
            labels.append("repaired")
            pending_repair = False
        if f is not None:
            nfaults += 1
            if rep["errorcode"] != devcode(m):
                raise Violation("history-faulted-code", "%s -> %r" % (where, rep))
            if f["kind"] != "timeout":
                pending_repair = True
            else:
                after_timeout = True
        else:
            if rep["errorcode"] != 0:
                raise Violation("history-unfaulted-not-served", "%s -> %r" % (where, rep))
    labels.append("faults:%d" % min(nfaults, 3))
    return Out(labels, nfaults >= 2)


REQUIRED_LABELS = {t: ["kind:write", "kind:read", "kind:timeout", "repaired",
                       "retry-after-connect-failure", "exempt-exit-step", "history", "transport:TCP",
                       "transport:SGX",
                       "repair-retried-after-failed-repair", "repair-fault:timeout",
                       "repaired-through-bootloader", "power-cycle:SGX", "after-device-refusal",
                       "unfit:refused-then-served",
                       "faults:2"] + ["req:%s/%s" % k for k in c04.PLAIN_NAMES]
                   for t in ("quick", "thorough")}


def stages(tier):
    return [EnumStage("cells", cells, run_case, exhaustive={"quick": True, "thorough": True},
                      budget_s={"quick": 360, "thorough": 600}),
            EnumStage("other-transports", transport_cells, run_transport_case,
                      exhaustive={"quick": True, "thorough": True},
                      budget_s={"quick": 180, "thorough": 120}),
            EnumStage("repair-faults", repair_fault_cells, run_repair_fault,
                      exhaustive={"quick": True, "thorough": True},
                      budget_s={"quick": 180, "thorough": 300}),
            EnumStage("comes-back-unfit", unfit_cases, run_unfit,
                      exhaustive={"quick": True, "thorough": True},
                      budget_s={"quick": 180, "thorough": 120}),
            EnumStage("power-cycled", power_cycle_cases, run_power_cycle,
                      exhaustive={"quick": True, "thorough": True},
                      budget_s={"quick": 180, "thorough": 120}),
            HypStage("histories", lambda t: histories(t), run_history,
                     {"quick": 100, "thorough": 1500},
                     budget_s={"quick": 180, "thorough": 600})]
