"""C03 - no client request can take the manager down or go unanswered."""
import copy
import json
import socket
import threading
import time

from hypothesis import strategies as st

from vlib.core import Violation, Out, HarnessError
from vlib.runner import HypStage
from vlib import mw, refs
from checks import c02

ID = "C03"
LEVEL = "exploration"
RULE = ("complete enumeration of single-mutation requests (each followed by a version request), coverage-guided atheris campaigns (raw lines on empty and seeded corpus, Hypothesis-decoded histories), and histories of 1..6 request lines against one manager lifetime: mutated documented "
        "requests, arbitrary JSON, raw bytes / invalid UTF-8, pathological documents (deep "
        "nesting, huge integers), oversized well-typed requests, hostile content; oracle per "
        "line = exactly one JSON-object line with int errorcode, no shutdown signal, next line "
        "served (handler tier; TCP tier over real sockets); non-trivial = line that decodes "
        "and parses as JSON and is not an unmodified template; distinct by line bytes; plus "
        "clients that send less than a line or hang up (close / reset) before the reply is "
        "written, followed by a well-behaved one")
ASSUMPTIONS = [
    "the device keeps to its protocol: simulated device of vlib/device.py without fault plan",
    "server shutdown is observed as RequestHandlerError/RequestHandlerShutdown from "
    "_RequestHandler.handle (handler tier) or as a refused follow-up connection (TCP tier)",
]

T5 = mw.nominal_requests()
T1 = mw.nominal_requests_v1()


def big_block(payload_len):
    fields = [b"\x01" * 32, b"\x07" * payload_len] + [b"\x02"] * 14 + \
        [b"\x01" * 80, b"\x02" * 64, bytes(8) + b"\x03" * 32 + b"RSKBLOCK:" + b"\x04" * 40]
    return refs.rlp_list(fields).hex()


def rlp_any(x):
    if isinstance(x, tuple) and x[0] == "raw":
        return x[1]                      # already encoded
    return refs.rlp_wrap_list(b"".join(rlp_any(i) for i in x)) if isinstance(x, list) \
        else refs.rlp_str(x)


def nested_list_rlp(depth):
    """RLP of an empty list wrapped in `depth` lists (built without recursion)."""
    enc = b"\xc0"
    for _ in range(depth):
        enc = refs.rlp_wrap_list(enc)
    return enc


def mutated_block(d):
    """A header as a field list with some fields replaced (nested lists, empty, oversized...)."""
    nf = d["nf"]
    if isinstance(nf, str):
        # not a list at all: an RLP byte string of as many BYTES as a header has fields
        return refs.rlp_str(bytes(range(1, int(nf[1:]) + 1))).hex()
    fields = [bytes([i + 1]) * (32 if i < 4 else 3) for i in range(nf)]
    if nf >= 17:
        base = nf - (3 if nf >= 19 else 1)
        fields[base] = b"\x01" * 80
        if nf >= 19:
            fields[base + 1] = b"\x02" * 64
            fields[base + 2] = bytes(8) + b"\x03" * 32 + b"RSKBLOCK:" + b"\x04" * 40
    for idx, kind in d["muts"]:
        if not fields:
            break
        i = idx % len(fields)
        fields[i] = {"list": [b"x"], "emptylist": [], "deep": [[[b"x"]]], "empty": b"",
                     "long": b"\x05" * 300, "one": b"\x01", "high": b"\x80",
                     "listlist": [[b"a"], [b"b"]], "short-cb": b"\x01" * 10,
                     "cb-39": b"\x01" * 39, "cb-40": b"\x01" * 40,
                     "cb-41": b"\x01" * 41,
                     # lists nested deeper than a stock interpreter recurses
                     "nest300": ("raw", nested_list_rlp(300)),
                     "nest700": ("raw", nested_list_rlp(700)),
                     "nest950": ("raw", nested_list_rlp(950)),
                     "nest3000": ("raw", nested_list_rlp(3000))}[kind]
    return rlp_any(fields).hex()


def render(d):
    """line descriptor -> request line bytes (without the newline)."""
    k = d["k"]
    if k == "blockmut":
        blk = mutated_block(d)
        if d["where"] == "advance":
            r = {"command": "advanceBlockchain", "version": 5,
                 "blocks": [blk, mw.mkblock(2)], "brothers": [[], []]}
        elif d["where"] == "brother":
            r = {"command": "advanceBlockchain", "version": 5,
                 "blocks": [mw.mkblock(1)], "brothers": [[blk, mw.mkblock(9)]]}
        else:
            r = {"command": "updateAncestorBlock", "version": 5,
                 "blocks": [mw.mkblock(1), blk]}
        return json.dumps(r).encode()
    if k == "raw":
        return d["b"].replace(b"\n", b" ")
    if k == "json":
        return json.dumps(d["v"]).encode()
    if k == "nest":
        inner = d.get("inner", "")
        if d["open"] == "[":
            return ("[" * d["n"] + inner + "]" * d["n"]).encode()
        return ('{"a":' * d["n"] + (inner or "1") + "}" * d["n"]).encode()
    if k == "nest-in-req":
        return ('{"command":"version","version":5,"x":' + "[" * d["n"] + "]" * d["n"] +
                "}").encode()
    if k == "digits":
        return (d["pre"] + "1" * d["n"] + d["post"]).encode()
    if k == "bigstr":
        return json.dumps({"command": d["cmd"], "version": 5, d["field"]: "a" * d["n"]}).encode()
    if k == "oversize":
        w = d["what"]
        if w == "block-advance":
            r = copy.deepcopy(T5["advance"])
            r["blocks"] = [big_block(d["n"])]
            r["brothers"] = [[]]
        elif w == "block-ancestor":
            r = copy.deepcopy(T5["ancestor"])
            r["blocks"] = [big_block(d["n"])]
        elif w == "brother-big":
            r = copy.deepcopy(T5["advance"])
            r["brothers"] = [[big_block(d["n"])], []]
        elif w == "brothers-many":
            r = copy.deepcopy(T5["advance"])
            r["blocks"] = r["blocks"][:1]
            r["brothers"] = [[mw.mkblock(i % 250 + 3) for i in range(d["n"])]]
        elif w == "witness":
            r = copy.deepcopy(T5["sign_segwit"])
            r["message"]["witnessScript"] = "51" * d["n"]
        elif w == "proof-nodes":
            r = copy.deepcopy(T5["sign_auth"])
            r["auth"]["receipt_merkle_proof"] = ["aa"] * d["n"]
        elif w == "proof-node-size":
            r = copy.deepcopy(T5["sign_auth"])
            r["auth"]["receipt_merkle_proof"] = ["aa" * d["n"]]
        elif w == "receipt":
            r = copy.deepcopy(T5["sign_auth"])
            r["auth"]["receipt"] = refs.rlp_wrap_list(b"\x01" * d["n"]).hex()
        elif w == "tx":
            r = copy.deepcopy(T5["sign_auth"])
            r["message"]["tx"] = "aa" * d["n"]
        elif w == "many-blocks":
            r = copy.deepcopy(T5["ancestor"])
            r["blocks"] = [mw.mkblock(i % 250 + 1) for i in range(d["n"])]
        else:
            raise HarnessError("unknown oversize kind %s" % w)
        return json.dumps(r).encode()
    raise HarnessError("unknown descriptor %r" % (d,))


HOSTILE_STR = ["c0", "c101", "f90000", "f8", "80", "b90001", "ff" * 9, "f9ffff" + "00" * 10,
               "f851" + "80" * 17 * 1, "d1" + "80" * 17, "d3" + "80" * 19, "d4" + "80" * 20,
               "d5" + "80" * 21, "d0" + "80" * 16, "e0" + "c0" * 17 + "80" * 2, "05", "00",
               "0100000000000000", "01000000" + "00" + "00" + "00000000",
               "0100000001" + "11" * 32 + "00000000" + "014c" + "ffffffff" + "00" + "00000000"]


@st.composite
def hostile(draw):
    """structurally valid request with hostile content"""
    name = draw(st.sampled_from(["sign_auth", "sign_segwit", "advance", "ancestor",
                                 "sign_unauth", "getPubKey", "signerHb", "uiHb"]))
    r = copy.deepcopy(T5[name])
    paths = [p for p in c02.paths(r) if p]
    leaves = []
    for p in paths:
        cur = r
        for k in p:
            cur = cur[k]
        if type(cur) is str and p[-1] not in ("command", "sighashComputationMode"):
            leaves.append(p)
    p = draw(st.sampled_from(leaves))
    val = draw(st.one_of(st.sampled_from(HOSTILE_STR),
                         st.binary(min_size=1, max_size=120).map(bytes.hex)))
    c02.setp(r, p, val)
    if name == "advance" and draw(st.booleans()):
        r["brothers"] = [[draw(st.sampled_from(HOSTILE_STR)) or "aa"], []]
    return r


@st.composite
def line(draw):
    k = draw(st.integers(0, 22))
    if k <= 6:
        c = draw(c02.cases("quick"))
        return {"k": "json", "v": c["req"]}
    if k <= 8:
        return {"k": "json", "v": draw(c02.json_val)}
    if k <= 10:
        return {"k": "raw", "b": draw(st.one_of(
            st.binary(max_size=40),
            st.sampled_from([b"", b"\xff", b'"\\ud800"', b"\x00", b"{", b"nul", b"NaN",
                             b"Infinity", b'{"command":"version"', b"\xef\xbb\xbf{}",
                             b'{"command":"version","version":5}garbage',
                             b'{"command":"version","command":"sign","version":5}',
                             b"[" * 50, b"1e400", b"-0", b"1E999999999"]),
            st.text(max_size=20).map(lambda s: s.encode("utf-8", "surrogatepass"))))}
    if k == 11:
        return {"k": "nest", "open": draw(st.sampled_from(["[", "{"])),
                "n": draw(st.sampled_from([10, 100, 500, 900, 990, 1000, 1100, 2000, 5000,
                                           100000]))}
    if k == 12:
        return {"k": "nest-in-req", "n": draw(st.sampled_from([10, 500, 900, 980, 995, 1000,
                                                               3000, 100000]))}
    if k == 13:
        return {"k": "digits", "n": draw(st.sampled_from([100, 4299, 4300, 4301, 5000, 20000])),
                "pre": draw(st.sampled_from(
                    ["", "-", '{"command":"version","version":',
                     '{"command":"sign","version":5,"keyId":"m/44\'/0\'/0\'/0/0","message":'
                     '{"tx":"aa","sighashComputationMode":"legacy","input":'])),
                "post": draw(st.sampled_from(["", "}", "}}", ".5", "e5"]))}
    if k == 14:
        return {"k": "bigstr", "cmd": draw(st.sampled_from(["getPubKey", "signerHeartbeat",
                                                             "nosuch"])),
                "field": draw(st.sampled_from(["keyId", "udValue", "x"])),
                "n": draw(st.sampled_from([1000, 100000, 1000001]))}
    if k <= 16:
        what = draw(st.sampled_from(["block-advance", "block-ancestor", "brother-big",
                                     "brothers-many", "witness", "proof-nodes",
                                     "proof-node-size", "receipt", "tx", "many-blocks"]))
        sizes = {"block-advance": [65000, 65535, 65536, 70000],
                 "block-ancestor": [65000, 65535, 65536, 70000],
                 "brother-big": [65000, 65536, 70000],
                 "brothers-many": [11, 255, 256, 300], "witness": [520, 65525, 65526, 65527,
                                                                   70000],
                 "proof-nodes": [255, 256, 1000], "proof-node-size": [255, 256, 1000],
                 "receipt": [55, 56, 70000], "tx": [1, 100000], "many-blocks": [256, 1000]}
        return {"k": "oversize", "what": what, "n": draw(st.sampled_from(sizes[what]))}
    if k == 19:
        return {"k": "json", "v": draw(hostile())}
    return {"k": "blockmut", "where": draw(st.sampled_from(["advance", "brother", "ancestor"])),
            "nf": draw(st.sampled_from([0, 1, 16, 17, 18, 19, 20, 21, 17, 18, 19, 20,
                                        "s16", "s17", "s18", "s19", "s20", "s21"])),
            "muts": draw(st.lists(st.tuples(
                st.integers(0, 20), st.sampled_from(
                    ["list", "emptylist", "deep", "empty", "long", "one", "high", "listlist",
                     "short-cb", "cb-39", "cb-40", "cb-41", "nest300", "nest700", "nest950",
                     "nest3000"])), max_size=3))}


@st.composite
def cases(draw, tier):
    return {"v1": draw(st.integers(0, 7)) == 0,
            "lines": draw(st.lists(line(), min_size=1, max_size=6))}


TEMPLATE_LINES = {json.dumps(v).encode() for v in list(T5.values()) + list(T1.values())}


def classify(desc, raw):
    labs = ["kind:" + desc["k"] + (":" + desc["what"] if desc["k"] == "oversize" else "")]
    try:
        v = json.loads(raw.decode("utf-8"))
        parses = True
    except Exception:
        parses = False
        v = None
    if not parses:
        labs.append("unparseable")
    return labs, parses and raw not in TEMPLATE_LINES, v


def run_case(c):
    w = mw.default_world()
    p = mw.stack(w, v1=c["v1"])
    h = mw.handler(p)
    labels = ["v1" if c["v1"] else "v5", "lines:%d" % len(c["lines"])]
    nontrivial = False
    for i, desc in enumerate(c["lines"]):
        raw = render(desc)
        labs, nt, v = classify(desc, raw)
        out, exc = mw.serve_line(h, raw)
        mw.check_sim(w)
        if exc is not None:
            cause = exc.__cause__ or exc.__context__ or exc
            from vlib.core import exc_signature
            sig = "shutdown:%s:%s" % (type(exc).__name__, exc_signature(cause))
            raise Violation(sig, "line %d of %d (%s) made the handler raise %s: %s; output %r"
                            % (i + 1, len(c["lines"]), raw[:300], type(exc).__name__,
                               str(exc)[:300], out[:80]))
        rep = mw.parse_reply(out)
        if rep is None:
            raise Violation("bad-reply", "line %d (%s) answered with %r" % (i + 1, raw[:300],
                                                                            out[:200]))
        labs.append("code:%d" % rep["errorcode"])
        labels.extend(labs)
        nontrivial = nontrivial or nt
    return Out(labels, nontrivial)


# ------------------------------------------------------------------ TCP tier

def _free_server(p):
    from comm.server import TCPServer
    srv = TCPServer("127.0.0.1", 0, p)
    result = {}

    def target():
        try:
            srv.run()
            result["end"] = "returned"
        except BaseException as e:   # noqa
            result["end"] = "raised %s" % type(e).__name__
    t = threading.Thread(target=target, daemon=True)
    t.start()
    deadline = time.time() + 10
    while time.time() < deadline:
        if srv.server is not None:
            try:
                return srv, t, result, srv.server.server_address[1]
            except Exception:
                pass
        time.sleep(0.005)
    raise HarnessError("TCP server did not start: %r" % (result,))


def _talk(port, raw, timeout=20):
    s = socket.create_connection(("127.0.0.1", port), timeout=timeout)
    try:
        s.sendall(raw + b"\n")
        s.shutdown(socket.SHUT_WR)
        buf = b""
        while True:
            d = s.recv(65536)
            if not d:
                break
            buf += d
        return buf
    finally:
        s.close()


def run_tcp(c):
    w = mw.default_world()
    p = mw.stack(w, v1=c["v1"], init=False)
    srv, t, result, port = _free_server(p)
    labels = ["tcp", "lines:%d" % len(c["lines"])]
    try:
        for i, desc in enumerate(c["lines"]):
            raw = render(desc)
            labs, nt, v = classify(desc, raw)
            try:
                out = _talk(port, raw)
            except (ConnectionError, socket.timeout, OSError) as e:
                raise Violation("tcp-no-answer", "connection %d (%s): %s; server thread: %r"
                                % (i + 1, raw[:200], e, result))
            mw.check_sim(w)
            rep = mw.parse_reply(out)
            if rep is None:
                raise Violation("tcp-bad-reply", "connection %d (%s) answered %r" % (
                    i + 1, raw[:200], out[:200]))
            labels.extend(labs)
            labels.append("code:%d" % rep["errorcode"])
        # the manager must go on accepting further connections
        time.sleep(0.02)
        try:
            out = _talk(port, b'{"command":"version"}')
        except (ConnectionError, socket.timeout, OSError) as e:
            raise Violation("tcp-server-down", "after %s the server no longer accepts "
                            "connections (%s); server thread: %r" % (
                                [render(d)[:120] for d in c["lines"]], e, result))
        rep = mw.parse_reply(out)
        if rep is None or rep["errorcode"] != 0:
            raise Violation("tcp-followup", "follow-up version request answered %r" % out[:200])
        if not t.is_alive():
            raise Violation("tcp-server-down", "server thread ended: %r" % (result,))
    finally:
        try:
            srv.server.shutdown()
        except Exception:
            pass
        t.join(timeout=5)
    return Out(labels, True)


# ---------------------------------------------------------------- clients that do not wait

RUDE = ["connect-and-close", "line-without-newline", "partial-then-reset", "request-then-reset",
        "request-then-close-unread", "newline-only-then-reset", "half-line-then-silence"]


def rude_cases(tier, seed):
    import itertools
    out = []
    for v1 in (False, True):
        for a in RUDE:
            out.append({"v1": v1, "acts": [a]})
        for a, b in itertools.permutations(RUDE, 2):
            out.append({"v1": v1, "acts": [a, b]})
    return out


def run_rude(c):
    """Clients that send less than a line, or hang up (politely or with a reset) before the reply
    is written: whatever they get, the manager goes on accepting further connections and
    answers the next well-behaved client."""
    import struct
    w = mw.default_world()
    # the device takes its time, so that the reply is written after the client is gone
    w.delay = lambda dongle, apdu: time.sleep(0.03)
    p = mw.stack(w, v1=c["v1"], init=False)
    srv, t, result, port = _free_server(p)
    req = json.dumps((T1 if c["v1"] else T5)["getPubKey"]).encode()
    labels = ["rude-clients"]

    def reset(s):
        s.setsockopt(socket.SOL_SOCKET, socket.SO_LINGER, struct.pack("ii", 1, 0))
        s.close()
    try:
        for act in c["acts"]:
            s = socket.create_connection(("127.0.0.1", port), timeout=20)
            if act == "connect-and-close":
                s.close()
            elif act == "line-without-newline":
                s.sendall(req)
                s.shutdown(socket.SHUT_WR)
                data = b""
                while True:
                    d_ = s.recv(65536)
                    if not d_:
                        break
                    data += d_
                s.close()
                if mw.parse_reply(data) is None:
                    raise Violation("bad-reply-to-unterminated-line", repr(data[:200]))
            elif act == "partial-then-reset":
                s.sendall(req[:len(req) // 2])
                reset(s)
            elif act == "request-then-reset":
                s.sendall(req + b"\n")
                reset(s)
            elif act == "request-then-close-unread":
                s.sendall(req + b"\n")
                s.close()
            elif act == "newline-only-then-reset":
                s.sendall(b"\n")
                reset(s)
            elif act == "half-line-then-silence":
                # says half a line, then nothing, and leaves after a while
                s.sendall(req[:10])
                time.sleep(0.2)
                s.close()
            labels.append("rude:" + act)
            time.sleep(0.05)
        mw.check_sim(w)
        try:
            out = _talk(port, b'{"command":"version"}')
        except (ConnectionError, socket.timeout, OSError) as e:
            raise Violation("tcp-server-down", "after clients %s the manager no longer answers "
                            "(%s); server thread: %r" % (c["acts"], e, result))
        rep = mw.parse_reply(out)
        if rep is None or rep["errorcode"] != 0:
            raise Violation("tcp-followup", "after clients %s a version request was answered %r"
                            % (c["acts"], out[:200]))
        if not t.is_alive():
            raise Violation("tcp-server-down", "server thread ended: %r" % (result,))
    finally:
        try:
            srv.server.shutdown()
        except Exception:
            pass
        t.join(timeout=5)
    return Out(labels, True)


REQUIRED_LABELS = {
    t: ["rude-clients"] + ["rude:" + a for a in RUDE] + ["v5", "v1", "kind:json", "kind:raw", "kind:nest", "kind:nest-in-req", "kind:digits",
        "kind:oversize:block-advance", "kind:oversize:block-ancestor",
        "kind:oversize:brothers-many", "kind:oversize:witness", "kind:oversize:proof-nodes",
        "kind:oversize:brother-big", "kind:blockmut", "unparseable", "code:0", "code:-901", "code:-902",
        "code:-903", "code:-904", "code:-101", "code:-102", "code:-103", "code:-204",
        "code:-205", "code:-301", "tcp"]
    for t in ("quick", "thorough")}


class SingleMutationLines:
    """Every single mutation of every documented request (C02's complete enumeration), each
    followed by a plain version request on the same manager."""

    def __init__(self, tier=None, seed=None):
        self.sm = c02.SingleMutations()

    def __len__(self):
        return len(self.sm)

    def __getitem__(self, i):
        c = self.sm[i]
        return {"v1": c["mode"] == "v1",
                "lines": [{"k": "json", "v": c["req"]}, {"k": "json", "v": {"command": "version"}}]}


def fuzz_seeds(tier):
    return sorted(TEMPLATE_LINES)


def fuzz_to_case(mode, data):
    if mode == "raw":
        line = bytes(data).replace(b"\n", b" ")
        return {"v1": bool(len(line) % 7 == 0), "lines": [{"k": "raw", "b": line}]}
    from vlib.fuzzdecode import decode
    return decode(cases("quick"), data)


def stages(tier):
    from vlib.runner import EnumStage, FuzzStage
    return [
        EnumStage("single-mutations", SingleMutationLines, run_case,
                  exhaustive={"quick": True, "thorough": True},
                  budget_s={"quick": 300, "thorough": 300}),
        HypStage("handler", lambda t: cases(t), run_case, {"quick": 400, "thorough": 8000},
                 budget_s={"quick": 300, "thorough": 900}),
        HypStage("tcp", lambda t: cases(t), run_tcp, {"quick": 12, "thorough": 200},
                 budget_s={"quick": 180, "thorough": 600}),
        EnumStage("rude-clients", rude_cases, run_rude,
                  exhaustive={"quick": True, "thorough": True},
                  budget_s={"quick": 180, "thorough": 120}),
        FuzzStage("fuzz", "C03", [("raw", False), ("raw", True), ("hyp", False), ("raw", True)],
                  {"quick": 4000, "thorough": 50000}, run_case, fuzz_to_case, fuzz_seeds,
                  budget_s={"quick": 45, "thorough": 600}, max_len=4096,
                  tokens=['"command"', '"version"', '"keyId"', '"message"', '"auth"', '"hash"',
                          '"tx"', '"input"', '"blocks"', '"brothers"', '"udValue"', '"sign"',
                          '"getPubKey"', '"advanceBlockchain"', '"updateAncestorBlock"',
                          '"receipt_merkle_proof"', '"receipt"', '"witnessScript"',
                          '"outpointValue"', '"sighashComputationMode"', '"segwit"', '"legacy"',
                          "m/44'/0'/0'/0/0", ":5", "[]", "{}", "true", "null", "-1",
                          "4294967296"]),
    ]
