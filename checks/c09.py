"""C09 - bring-up never endangers the device and never serves from an unsafe state."""
import hashlib
import itertools
import os
import shutil
import socket
import tempfile
import threading
import time

from vlib.core import Violation, Out, HarnessError
from vlib.runner import EnumStage
from vlib import mw
from vlib.device import BOOT, SIGNER, UIHB

import ledger.hsm2dongle as hd
import ledger.hsm2dongle_tcp as hdt
from sgx.hsm2dongle import HSM2DongleSGX
from ledger.hsm2dongle_tcp import HSM2DongleTCP
from ledger.protocol import HSM2ProtocolLedger
from ledger.pin import FileBasedPin
import ledger.pin as lpin
from comm.protocol import HSM2ProtocolError, HSM2ProtocolInterrupt
from comm.platform import Platform

ID = "C09"
LEVEL = "exploration"
RULE = ("enumeration of bring-up configurations: device mode {bootloader, signer, ui-heartbeat, "
        "GET_MODE fails, foreign byte} x onboarded {yes,no,error} x UI version x signer version "
        "(3x3x3 grid around 5.4.1 each) x retries {0,1,2,3,255} x echo x unlock outcome x PIN "
        "change outcome {none needed, accepted, refused, status error, link error, time-out, ack "
        "lost, commit fails} x mode after exit x platform {Ledger, SGX, TCP}; thorough = complete product, "
        "quick = all non-version dimensions x seed-chosen version pairs (boundaries always "
        "included) plus random version triples; plus the manager programs themselves "
        "(manager_ledger.py / manager_sgx.py / manager_tcp.py run as __main__ with a command "
        "line: PIN file present / absent x -X / --changepin / none x change accepted / refused "
        "x --version-one); non-trivial = bootloader-mode or version-boundary "
        "configuration; distinct by configuration")
ASSUMPTIONS = [
    "reference model of 15 lines transcribes the property statement (supported = same major, "
    "minor.patch <= 4.1)",
    "simulated device answers bring-up commands with the framing of the firmware UI and signer",
]

MODES = [BOOT, SIGNER, UIHB, "unknown", 7]
ONB = [True, False, "error"]
VGRID = [(a, b, c) for a in (4, 5, 6) for b in (3, 4, 5) for c in (0, 1, 2)]
RETRIES = [0, 1, 2, 3, 255]
POST = [SIGNER, BOOT, UIHB]
PLATFORMS = ["Ledger", "SGX", "TCP"]
BOUNDARY_V = [(5, 4, 1), (5, 4, 2), (5, 4, 0), (5, 3, 2), (5, 5, 0), (4, 4, 1), (6, 4, 1)]
PIN = b"abcd1234"


def supported(v):
    return v[0] == 5 and (v[1] < 4 or (v[1] == 4 and v[2] <= 1))


def model(c):
    """(unlock may be sent, serves)"""
    cond = (c["onboarded"] is True and c["mode"] == BOOT and supported(c["ui_version"])
            and c["echo_ok"] and c["retries"] >= 2)
    if c["onboarded"] is not True:
        return cond, False
    mode = c["mode"]
    if mode == BOOT:
        if not cond or c["platform"] == "TCP":      # TCP manager has no PIN to unlock with
            return cond, False
        if not c["unlock_ok"] or c["needs_change"]:
            return cond, False
        mode = c["post_mode"]
    return cond, mode == SIGNER and supported(c["signer_version"])


KEYS = ["mode", "onboarded", "ui_version", "signer_version", "retries", "echo_ok", "unlock_ok",
        "needs_change", "post_mode", "platform", "change"]
# needs_change values: False, or how the PIN change goes: device reaction / commit failure
CHANGES = [False, "accept", "refuse", "swerr", "comm", "timeout", "ack-lost", "commit-fails"]


class Grid:
    def __init__(self, tier, seed):
        other = [MODES, ONB, RETRIES, [True, False], [True, False], CHANGES, POST, PLATFORMS]
        if tier == "thorough":
            self.vpairs = [(u, s) for u in VGRID for s in VGRID]
        else:
            pairs = [(u, s) for u in BOUNDARY_V for s in [(5, 4, 1)]] + \
                    [((5, 4, 1), s) for s in BOUNDARY_V]
            for j in range(6):
                h = hashlib.sha256(("%d:%d" % (seed, j)).encode()).digest()
                if j < 3:
                    pairs.append((VGRID[h[0] % 27], VGRID[h[1] % 27]))
                else:
                    pairs.append(((h[0] % 8, h[1], h[2]), (h[3] % 8, h[4], h[5])))
            self.vpairs = sorted(set(pairs))
        self.other = list(itertools.product(*other))

    def __len__(self):
        return len(self.vpairs) * len(self.other)

    def __getitem__(self, i):
        vp = self.vpairs[i // len(self.other)]
        o = self.other[i % len(self.other)]
        return {"mode": o[0], "onboarded": o[1], "ui_version": list(vp[0]),
                "signer_version": list(vp[1]), "retries": o[2], "echo_ok": o[3],
                "unlock_ok": o[4], "needs_change": bool(o[5]), "change": o[5],
                "post_mode": o[6], "platform": o[7]}


_TMP = {}


def tmpdir():
    pid = os.getpid()
    if pid not in _TMP:
        _TMP[pid] = tempfile.mkdtemp(prefix="verif-c09-")
        import atexit
        atexit.register(shutil.rmtree, _TMP[pid], True)
    return _TMP[pid]


def build(c):
    w = mw.default_world()
    w.mode = c["mode"] if c["mode"] != "unknown" else BOOT
    w.mode_error = c["mode"] == "unknown"
    w.onboarded = c["onboarded"]
    w.ui_version = tuple(c["ui_version"])
    w.signer_version = tuple(c["signer_version"])
    w.retries = c["retries"]
    w.echo_ok = c["echo_ok"]
    if not c["echo_ok"]:
        # the ways an echo can be wrong, spread over the grid
        k = (c["retries"] + sum(c["ui_version"]) + sum(c["signer_version"]) +
             PLATFORMS.index(c["platform"]) + POST.index(c["post_mode"])) % 5
        w.echo_ok = [False, "hdr-cmd", "hdr-cla", "short", "long"][k]
    w.unlock_ok = c["unlock_ok"]
    w.post_mode = c["post_mode"]
    w.pin = PIN
    # leaving the UI makes the device drop off the link: the host sees a failed read, a failed
    # write or a time-out (spread over the grid)
    w.exit_drop = ["read", "write", "timeout"][
        (c["retries"] + sum(c["ui_version"]) + 2 * sum(c["signer_version"]) +
         PLATFORMS.index(c["platform"]) + POST.index(c["post_mode"])) % 3]
    ch = c.get("change", "accept" if c["needs_change"] else False)
    if ch and ch != "commit-fails":
        w.newpin_behaviour = ch
    mw.install(w)
    plat = c["platform"]
    Platform.set({"Ledger": Platform.LEDGER, "SGX": Platform.SGX, "TCP": Platform.X86}[plat])
    pin = None
    if plat != "TCP":
        pf = os.path.join(tmpdir(), "pin.txt")
        if os.path.exists(pf):
            os.unlink(pf)
        if not c["needs_change"]:
            with open(pf, "wb") as f:
                f.write(PIN)
        pin = FileBasedPin(pf, PIN, False)
        if ch == "commit-fails":
            def failing_commit():
                raise lpin.PinError("Error commiting: disk full")
            pin.commit_change = failing_commit
    if plat == "Ledger":
        dongle = hd.HSM2Dongle(False)
    elif plat == "SGX":
        dongle = HSM2DongleSGX("h", 1, False)
    else:
        dongle = HSM2DongleTCP("h", 1, False)
    return w, HSM2ProtocolLedger(pin, dongle)


def observe(w):
    apdus = w.apdus()
    # unlock commands that reached the device, in whatever mode it was (Ledger UNLOCK, SGX
    # UNLOCK carrying the PIN)
    unlocks = max(sum(1 for e in w.log if e[0] == "unlock_attempt"),
                  sum(1 for a in apdus if a[1] in (0xFE, 0xA3)))
    pin_sends = sum(1 for a in apdus if a[1] == 0x41)
    return unlocks, pin_sends, apdus


def run_case(c):
    c = dict(c)
    c["ui_version"] = tuple(c["ui_version"])
    c["signer_version"] = tuple(c["signer_version"])
    w, p = build(c)
    try:
        p.initialize_device()
        out = "serve"
    except HSM2ProtocolError:
        out = "error"
    except HSM2ProtocolInterrupt:
        out = "interrupt"
    except Exception as e:     # noqa - any other way of not getting through the bring-up: it stops
        out = "crash:" + type(e).__name__
    except BaseException as e:     # noqa
        if type(e) is not BaseException:
            raise                  # the harness's own signals (watchdog, simulated crash)
        out = "crash:BaseException"     # what the USB transport raises for a failed write
    finally:
        Platform.set(Platform.LEDGER)
    mw.check_sim(w)
    unlocks, pin_sends, apdus = observe(w)
    cond, serves = model(c)
    desc = {k: c[k] for k in KEYS}
    if unlocks > 1:
        raise Violation("unlock-more-than-once", "%r: %d unlock commands" % (desc, unlocks))
    if (unlocks or pin_sends) and not cond:
        raise Violation("pin-sent-to-unsafe-device", "%r: %d unlock, %d SEND_PIN" % (
            desc, unlocks, pin_sends))
    if (out == "serve") != serves:
        raise Violation("serves-mismatch:%s" % ("serves" if out == "serve" else "stops"),
                        "%r: outcome %s, model says serves=%s" % (desc, out, serves))
    if serves and c["mode"] == BOOT and unlocks != 1:
        raise Violation("served-without-unlock", repr(desc))
    boundary = c["ui_version"] in BOUNDARY_V[1:] or c["signer_version"] in BOUNDARY_V[1:]
    labels = ["out:" + out, "platform:" + c["platform"], "mode:%s" % c["mode"],
              "echo:%s" % w.echo_ok, "echo:%s:%s" % (w.echo_ok, c["platform"]),
              "exit-drop:" + w.exit_drop,
              "unlocks:%d" % unlocks, "change:%s" % c.get("change", c["needs_change"])]
    if serves:
        labels.append("serves")
    return Out(labels, c["mode"] == BOOT or boundary)


# ---------------------------------------------------------------- one link fault during bring-up

FAULT_KINDS = ["write", "read", "timeout"]


def fault_cases(tier, seed):
    out = []
    for plat, mode, retries, unlock_ok, change, post in itertools.product(
            PLATFORMS, [BOOT, SIGNER], [2, 3], [True, False], [False, "accept"], [SIGNER, BOOT]):
        if mode == SIGNER and (retries != 3 or not unlock_ok or change or post != SIGNER):
            continue
        for j in range(14):
            for kind in FAULT_KINDS:
                out.append({"mode": mode, "onboarded": True, "ui_version": [5, 4, 1],
                            "signer_version": [5, 4, 1], "retries": retries, "echo_ok": True,
                            "unlock_ok": unlock_ok, "needs_change": bool(change),
                            "change": change, "post_mode": post, "platform": plat,
                            "fault_at": j, "fault_kind": kind})
    return out


def run_fault_case(c):
    """The bring-up meets one link fault at its j-th exchange (the device has acted on the
    command when the fault is on the way back). Whatever the manager does about it, the unlock
    command and the PIN reach the device at most once, and only a device that qualifies; if the
    manager goes on to serve, the device is onboarded and in signer mode with a supported
    version."""
    c = dict(c)
    c["ui_version"] = tuple(c["ui_version"])
    c["signer_version"] = tuple(c["signer_version"])
    w, p = build(c)
    w.faults[w.nex + c["fault_at"]] = c["fault_kind"]
    try:
        p.initialize_device()
        out = "serve"
    except (HSM2ProtocolError, HSM2ProtocolInterrupt):
        out = "stop"
    except Exception as e:   # noqa - the manager stops either way
        out = "stop:" + type(e).__name__
    except BaseException as e:   # noqa
        if type(e) is not BaseException:
            raise
        out = "stop:BaseException"
    finally:
        Platform.set(Platform.LEDGER)
    mw.check_sim(w)
    hit = any(e[0] == "fault" for e in w.log)
    unlocks, pin_sends, apdus = observe(w)
    cond, _ = model(c)
    desc = {k: c[k] for k in KEYS + ["fault_at", "fault_kind"]}
    pin_len = len(PIN)
    if unlocks > 1:
        raise Violation("unlock-more-than-once", "%r: %d unlock commands reached the device" % (
            desc, unlocks))
    if pin_sends > pin_len:
        raise Violation("pin-sent-more-than-once", "%r: %d SEND_PIN commands" % (desc, pin_sends))
    if (unlocks or pin_sends) and not cond:
        raise Violation("pin-sent-to-unsafe-device", repr(desc))
    if out == "serve" and not (w.mode == SIGNER and supported(w.signer_version)
                               and w.onboarded is True):
        raise Violation("serves-from-unsafe-state", "%r: device mode %r" % (desc, w.mode))
    labels = ["fault-stage", "fault:" + c["fault_kind"], "fault-out:" + out.split(":")[0],
              "fault-platform:" + c["platform"]]
    if hit and any(e[0] == "fault" and len(e) > 2 and e[2][1] in (0xFE, 0xA3) for e in w.log):
        labels.append("fault-at-unlock")
    return Out(labels, hit)


# ---------------------------------------------------------------- through the real server

def server_cases(tier, seed):
    base = {"mode": SIGNER, "onboarded": True, "ui_version": [5, 4, 1],
            "signer_version": [5, 4, 1], "retries": 3, "echo_ok": True, "unlock_ok": True,
            "needs_change": False, "change": False, "post_mode": SIGNER, "platform": "Ledger"}
    out = []
    for d in [{}, {"mode": BOOT}, {"mode": BOOT, "platform": "SGX"}, {"mode": BOOT, "retries": 1},
              {"mode": BOOT, "needs_change": True, "change": "accept"},
              {"mode": BOOT, "needs_change": True, "change": "refuse"},
              {"mode": BOOT, "needs_change": True, "change": "timeout"},
              {"mode": BOOT, "needs_change": True, "change": "commit-fails", "platform": "SGX"},
              {"mode": BOOT, "unlock_ok": False},
              {"mode": BOOT, "echo_ok": False}, {"mode": BOOT, "post_mode": BOOT},
              {"mode": UIHB}, {"mode": "unknown"}, {"onboarded": False}, {"onboarded": "error"},
              {"signer_version": [5, 4, 2]}, {"signer_version": [6, 0, 0]},
              {"mode": BOOT, "ui_version": [5, 5, 0]}, {"mode": BOOT, "signer_version": [5, 5, 0]},
              {"platform": "TCP"}, {"platform": "SGX"}, {"signer_version": [5, 3, 9]},
              {"restart": True}, {"restart": True, "mode": BOOT, "platform": "SGX"}]:
        c = dict(base)
        c.update(d)
        out.append(c)
    return out


def run_server(c):
    if c.get("restart"):
        # a manager that served a client is stopped and started again at once on the same port
        # (an ordinary service restart): it serves again
        probe = socket.socket()
        probe.bind(("127.0.0.1", 0))
        port = probe.getsockname()[1]
        probe.close()
        for n in (1, 2, 3):
            out = _serve_once(dict(c, restart=False, passive_close=True), port)
            if "server:answered" not in out.labels:
                raise Violation("server-answers-mismatch", "start #%d on port %d of a manager "
                                "whose device qualifies did not serve" % (n, port))
        return Out(["server:answered", "server:restarted"], True)
    return _serve_once(c, 0)


def _serve_once(c, port):
    from comm.server import TCPServer
    c = dict(c)
    c["ui_version"] = tuple(c["ui_version"])
    c["signer_version"] = tuple(c["signer_version"])
    w, p = build(c)
    srv = TCPServer("127.0.0.1", port, p)
    res = {}

    def target():
        try:
            srv.run()
            res["end"] = "returned"
        except BaseException as e:   # noqa
            res["end"] = "raised:" + type(e).__name__
    t = threading.Thread(target=target, daemon=True)
    t.start()
    cond, serves = model(c)
    answered = False
    # until the manager either serves or its thread ends (the allowance only bounds a manager
    # that does neither)
    deadline = time.time() + 60
    while time.time() < deadline:
        if srv.server is not None:
            try:
                port = srv.server.server_address[1]
                from checks.c03 import _talk
                if c.get("passive_close"):
                    # the client leaves it to the manager to close the connection first
                    s_ = socket.create_connection(("127.0.0.1", port), timeout=5)
                    try:
                        s_.sendall(b'{"command":"version"}\n')
                        data = b""
                        while True:
                            d_ = s_.recv(65536)
                            if not d_:
                                break
                            data += d_
                    finally:
                        s_.close()
                else:
                    data = _talk(port, b'{"command":"version"}', timeout=5)
                answered = mw.parse_reply(data) is not None
                break
            except OSError:
                pass
        if not t.is_alive():
            break
        time.sleep(0.01)
    try:
        if srv.server is not None:
            srv.server.shutdown()
    except Exception:
        pass
    t.join(timeout=5)
    Platform.set(Platform.LEDGER)
    if answered != serves:
        raise Violation("server-answers-mismatch", "%r: client answered=%s, model serves=%s, "
                        "server thread %r" % ({k: c[k] for k in KEYS}, answered, serves, res))
    return Out(["server:answered" if answered else "server:silent"], True)


# ---------------------------------------------------------------- the manager programs

def program_cases(tier, seed):
    out = []
    for plat, mode, filest, switch, change, v1 in itertools.product(
            PLATFORMS, [BOOT, SIGNER], ["present", "absent"], [None, "-X", "--changepin"],
            ["accept", "refuse"], [False, True]):
        if plat == "TCP" and (filest != "present" or switch or change != "accept"):
            continue
        if v1 and (change != "accept" or switch == "--changepin"):
            continue
        out.append({"platform": plat, "mode": mode, "file": filest, "switch": switch,
                    "change": change, "v1": v1})
    return out


def run_program(c):
    """manager_ledger.py / manager_sgx.py / manager_tcp.py started as a user starts them (command
    line, PIN file, PIN environment variable) against a device that qualifies: they serve
    exactly when no PIN change was due."""
    from vlib import managers
    plat = c["platform"]
    needs_change = plat != "TCP" and (c["file"] == "absent" or bool(c["switch"]))
    cc = {"mode": c["mode"], "onboarded": True, "ui_version": (5, 4, 1),
          "signer_version": (5, 4, 1), "retries": 3, "echo_ok": True, "unlock_ok": True,
          "needs_change": needs_change, "change": c["change"] if needs_change else False,
          "post_mode": SIGNER, "platform": plat}
    w, _ = build(cc)
    pf = os.path.join(tmpdir(), "pin.txt")
    if os.path.exists(pf):
        os.unlink(pf)
    if c["file"] == "present":
        with open(pf, "wb") as f:
            f.write(PIN)
    argv = ["-b", "127.0.0.1", "-p", "0", "-l", os.path.join(tmpdir(), "no-such-logging.cfg")]
    if plat != "TCP":
        argv += ["-P", pf]
        if c["switch"]:
            argv.append(c["switch"])
    if c["v1"]:
        argv.append("--version-one")
    cond, serves = model(cc)
    mark = len(w.log)
    # the PIN in the environment is the configured default: the device's PIN when there is no
    # file to take it from, something else when there is (the file is what counts then)
    env_pin = PIN.decode() if c["file"] == "absent" else "envp9999"
    res = managers.run_manager(plat, argv, {"PIN": env_pin}, w)
    mw.check_sim(w)
    unlocks, pin_sends, apdus = observe(w)
    desc = dict(c)
    if unlocks > 1:
        raise Violation("unlock-more-than-once", "%r: %d unlock commands" % (desc, unlocks))
    if (unlocks or pin_sends) and not cond:
        raise Violation("pin-sent-to-unsafe-device", repr(desc))
    if res["served"] != serves:
        raise Violation("program-serves-mismatch:%s" % ("serves" if res["served"] else "stops"),
                        "%r: the program %s (ended: %s), the statement says serves=%s" % (
                            desc, "served a client" if res["served"] else "served nobody",
                            res["end"], serves))
    changes = [e for e in w.log[mark:] if e[0] == "newpin_rx"]
    if c["mode"] == BOOT and needs_change and not changes:
        raise Violation("program-change-due-not-attempted", repr(desc))
    labels = ["program:" + plat, "program-%s" % ("serves" if res["served"] else "stops")]
    if c["switch"] and c["file"] == "present" and c["mode"] == BOOT:
        labels.append("program:forced-change")
    return Out(labels, True)


REQUIRED_LABELS = {t: ["change:%s" % x for x in CHANGES] + ["out:serve", "out:error", "out:interrupt", "platform:Ledger",
                       "platform:SGX", "platform:TCP", "unlocks:0", "unlocks:1", "serves",
                       "server:answered", "server:silent", "server:restarted", "program:Ledger", "program:SGX",
                       "program:TCP", "program-serves", "program-stops", "program:forced-change", "fault-at-unlock", "fault-out:stop",
                       "fault-platform:SGX", "fault-platform:Ledger", "echo:hdr-cmd",
                       "echo:hdr-cla", "echo:short", "echo:long:SGX", "echo:long:Ledger", "echo:long:TCP", "echo:False", "echo:True", "exit-drop:read",
                       "exit-drop:write", "exit-drop:timeout"] for t in ("quick", "thorough")}


def stages(tier):
    return [EnumStage("grid", lambda t, s: Grid(t, s), run_case, exhaustive={"thorough": True},
                      budget_s={"quick": 360, "thorough": 1800}),
            EnumStage("bring-up-faults", fault_cases, run_fault_case,
                      exhaustive={"quick": True, "thorough": True},
                      budget_s={"quick": 180, "thorough": 120}),
            EnumStage("server", server_cases, run_server,
                      exhaustive={"quick": True, "thorough": True},
                      budget_s={"quick": 180, "thorough": 60}),
            EnumStage("manager-programs", program_cases, run_program,
                      exhaustive={"quick": True, "thorough": True},
                      budget_s={"quick": 270, "thorough": 120})]
