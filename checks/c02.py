"""C02 - requests are classified exactly as the protocol specification prescribes."""
import copy
import json

from hypothesis import strategies as st

from vlib.core import Violation, Out, HarnessError
from vlib.runner import HypStage
from vlib import mw, spec

ID = "C02"
LEVEL = "exploration"
RULE = ("(i) complete enumeration of single mutations (every node of every documented request x deleted / every value of its type-directed pool / cross-type pool), on a fresh manager and again while a reconnection is pending after a link failure; (ii) field-aware mutation (0..3 mutations: delete / replace leaf by type-directed pool value "
        "/ add key) of the documented request templates of all 10 commands in v5 and v1 mode, "
        "plus arbitrary JSON values; oracle = verdict set computed by a classifier transcribed "
        "from docs/protocol*.md; non-trivial = JSON object with >= 1 mutation whose "
        "classification is not ambiguous; distinct by (mode, request)")
ASSUMPTIONS = [
    "specification classifier in vlib/spec.py transcribes docs/protocol.md / protocol-v1.md; "
    "where the docs are silent a request is counted as ambiguous and not asserted",
    "verdict 'accepted' is observed as: at least one command APDU reached the simulated device "
    "(or the command is version and the reply is 0)",
]

TX = mw.NOMINAL_TX
STR_POOL = ["", "a", "aa", "zz", "0x00", "aa" * 31, "aa" * 33, "aa" * 32, "aa" * 16,
            "aa " * 32, "AA" * 32, "c0", "m/44'/0'/0'/0", "m/44'/0'/0'/0/0/0", "m/-1/0/0/0/0",
            "m/2147483648/0/0/0/0", "m/2147483647'/0/0/0/0", "m/44'/0'/0'/0/0", "m/0/0/0/0/0'",
            "M/0/0/0/0/0", "m/0'/0''/0/0/0", "m/44'/137'/0'/0/0", "legacy ", "SEGWIT", "segwit",
            "legacy", "version", "sign", "getPubKey", "blockchainState", "nosuch", 0, None, [],
            {}, True, "١", "m/١/0/0/0/0", "m/ 1/0/0/0/0", "m/+1/0/0/0/0",
            "0100000001" + "11" * 32 + "00000000" + "00" + "ffffffff" + "00" + "00000000",
            "0100000001" + "11" * 32 + "00000000" + "024c" + "ffffffff" + "00" + "00000000",
            TX + "00", TX[:-2], "aa" * 300,
            # strings that other decoders may take for hex / digits
            "١١", "٠١٢٣４５", "a١", "１２", "aa\n", " aa", "aa ", "a a", "+1", "0_0",
            "m/４４'/0'/0'/0/0", "m/44'/0'/0'/0/0\n", "m/44'/0'/0'/0/0 ", "\u0000", "aa\u0000",
            "AA", "aA" * 32, "0X00",
            # one byte off the two heartbeat lengths
            "aa" * 15, "aa" * 17,
            # exactly 32 / 64 characters that an integer parser takes for base 16
            "0x" + "a" * 30, "-" + "a" * 31, "+" + "a" * 31, "a_" * 16, " " + "a" * 31,
            "a" * 31 + " ", "0x" + "a" * 62, "-" + "a" * 63, "a_" * 32, " " + "a" * 63,
            "0X" + "A" * 30, "a" * 31 + "\n"]
INT_POOL = [-1, 0, 1, 5, 2 ** 31, 2 ** 32 - 1, 2 ** 32, 2 ** 63, 2 ** 64 - 1, 2 ** 64, -2 ** 64,
            10 ** 400, True, False, 1.0, 5.0, 1.5, "1", "5", None, [], {}]
LIST_POOL = [[], [[]], [1], ["aa"], ["aa", "bb"], [None], {}, "aa", None, 0, [["aa"]],
             [["aa"], []], [[["aa"]]], [[""]], [["zz"]], [[1]], [[], []]]
DICT_POOL = [{}, [], None, "x", 0, {"hash": "aa" * 32}, {"hash": "aa" * 32, "x": 1}, {"a": 1},
             "aa" * 32, {"hash": "aa" * 31}, {"hash": 5}]

json_leaf = st.one_of(
    st.none(), st.booleans(), st.integers(-2 ** 70, 2 ** 70), st.floats(allow_nan=False,
                                                                         allow_infinity=False),
    st.text(max_size=6),
    st.sampled_from(["", "aa", "zz", "aa" * 32, "aa" * 16, "m/44'/0'/0'/0/0", "legacy", "segwit",
                     "c0"]))
json_val = st.recursive(json_leaf, lambda c: st.one_of(
    st.lists(c, max_size=3),
    st.dictionaries(st.sampled_from(["a", "hash", "tx", "input", "command", "version"]), c,
                    max_size=3)), max_leaves=5)


def paths(o, pre=()):
    yield pre
    if isinstance(o, dict):
        for k in sorted(o):
            yield from paths(o[k], pre + (k,))
    elif isinstance(o, list):
        for i, v in enumerate(o):
            yield from paths(v, pre + (i,))


def setp(o, path, val, delete=False):
    if not path:
        return val
    cur = o
    for k in path[:-1]:
        cur = cur[k]
    if delete:
        del cur[path[-1]]
    else:
        cur[path[-1]] = val
    return o


TEMPLATES_V5 = mw.nominal_requests()
TEMPLATES_V1 = mw.nominal_requests_v1()


@st.composite
def cases(draw, tier):
    if draw(st.integers(0, 19)) == 0:
        return {"mode": draw(st.sampled_from(["v5", "v1"])), "tpl": "free", "muts": [],
                "req": draw(json_val)}
    mode = draw(st.sampled_from(["v5", "v5", "v1"]))
    pool = TEMPLATES_V5 if mode == "v5" else TEMPLATES_V1
    if mode == "v1" and draw(st.integers(0, 9)) == 0:
        pool = TEMPLATES_V5
    name = draw(st.sampled_from(sorted(pool)))
    req = copy.deepcopy(pool[name])
    muts = []
    for _ in range(draw(st.integers(0, 3))):
        if not isinstance(req, (dict, list)):
            break
        ps = list(paths(req))
        if len(ps) > 1 and draw(st.integers(0, 11)) != 0:
            ps = ps[1:]        # the root itself is replaced only occasionally
        p = draw(st.sampled_from(ps))
        field = ".".join(str(x) if not isinstance(x, int) else "#" for x in p) or "<root>"
        if p and draw(st.integers(0, 4)) == 0:
            req = setp(req, p, None, delete=True)
            muts.append("delete:" + field)
            continue
        cur = req
        for k in p:
            cur = cur[k]
        if draw(st.integers(0, 6)) == 0 and isinstance(cur, dict):
            cur["extra"] = draw(json_leaf)
            muts.append("addkey:" + field)
            continue
        if type(cur) is int:
            pl, kind = INT_POOL, "int"
        elif type(cur) is str:
            pl, kind = STR_POOL, "str"
        elif type(cur) is list:
            pl, kind = LIST_POOL, "list"
        else:
            pl, kind = DICT_POOL, "dict"
        val = draw(st.one_of(st.sampled_from(pl), st.sampled_from(pl), st.sampled_from(pl),
                             json_val))
        req = setp(req, p, copy.deepcopy(val))
        muts.append("replace-%s:%s" % (kind, field))
    return {"mode": mode, "tpl": name, "muts": muts, "req": req}


def run_case(c):
    mode = c["mode"]
    req = c["req"]
    w = mw.default_world()
    p = mw.stack(w, v1=(mode == "v1"))
    if c.get("pending"):
        # an earlier (accepted) request hit a link failure: a reconnection is pending. A request
        # that is NOT accepted must still cause no exchange at all - not even the reconnection
        w.faults[w.nex] = "read"
        r0 = p.handle_request({"command": "getPubKey", "version": 5 if mode == "v5" else 1,
                               "keyId": mw.K_AUTH})
        if r0.get("errorcode") not in (-905, -2):
            raise Violation("pending-setup", repr(r0))
    if c.get("warm"):
        tpl = (TEMPLATES_V5 if mode == "v5" else TEMPLATES_V1).get(c["tpl"])
        if tpl is not None:
            w.adv_plan = {"final": "total"}
            r0 = p.handle_request(copy.deepcopy(tpl))
            if r0.get("errorcode") not in (0, 1):
                raise HarnessError("nominal %s/%s not served: %r" % (mode, c["tpl"], r0))
    mark = len(w.log)
    line = json.dumps(req)
    rep = p.handle_request(json.loads(line))
    mw.check_sim(w)
    if c.get("warm") and isinstance(rep, dict) and rep.get("errorcode", 0) < 0 and \
            not w.apdus(mark):
        # refused without a word to the device: the very same request again fares the same
        rep_again = p.handle_request(json.loads(line))
        if rep_again != rep or w.apdus(mark):
            raise Violation("refusal-not-repeatable", "mode %s request %s: first %r (no "
                            "exchange), sent again: %r, %d APDUs" % (
                                mode, line[:300], rep, rep_again, len(w.apdus(mark))))
    if not isinstance(rep, dict) or type(rep.get("errorcode")) is not int:
        raise Violation("reply-shape", "request %s -> %r" % (line[:300], rep))
    apdus = w.apdus(mark)
    if c.get("pending"):
        # with a pending reconnection, closing / reopening the link counts as device contact too
        apdus = apdus or [e for e in w.log[mark:] if e[0] in ("connect", "connect_fail", "close")]
    is_version = type(req) is dict and req.get("command") == "version"
    if apdus or (is_version and rep["errorcode"] == 0):
        verdict = "ACC"
    else:
        verdict = rep["errorcode"]
    al, amb = spec.allowed(json.loads(line), mode)
    labels = ["mode:" + mode, "tpl:" + c["tpl"]]
    if c.get("pending"):
        labels.append("reconnection-pending")
    if c.get("warm"):
        labels.append("after-the-nominal-request")
    for m in c["muts"]:
        labels.append("mut:" + m.split(":")[0])
    if amb:
        labels.append("ambiguous")
        # docs silent on who refuses what here; whatever the answer, it is a documented code
        _documented_code(mode, req, rep, line)
        return Out(labels, False)
    labels.append("verdict:%s" % verdict)
    if verdict not in al:
        if verdict == "ACC":
            raise Violation("device-contacted-for-defective-request:%s" % "/".join(
                str(x) for x in sorted(al, key=str)),
                "mode %s request %s reached the device (%d APDUs, reply %r) although the docs "
                "classify it as %s" % (mode, line[:400], len(apdus), rep, sorted(al, key=str)))
        raise Violation("verdict:%s-not-in:%s" % (verdict, "/".join(
            str(x) for x in sorted(al, key=str))),
            "mode %s request %s -> %r; docs allow %s" % (mode, line[:400], rep,
                                                         sorted(al, key=str)))
    _documented_code(mode, req, rep, line)
    for m in c["muts"]:
        labels.append("class:%s:%s" % (c["tpl"], m))
    return Out(labels, bool(c["muts"]) and type(req) is dict)


def _documented_code(mode, req, rep, line):
    if mode == "v5" and type(req) is dict and type(req.get("command")) is str and \
            req["command"] in spec.DOCUMENTED:
        if rep["errorcode"] not in spec.DOCUMENTED[req["command"]] | spec.GENERIC:
            raise Violation("undocumented-code", "request %s -> %r" % (line[:300], rep))


CROSS_POOL = [None, True, False, 0, 1, -1, 1.0, 1.5, "", "aa", [], {}, [1], {"a": 1}]


def spelling_cases(tier, seed):
    """The documented requests as they may legitimately be written on the wire: JSON leaves the
    client free to pad with white space (any amount), order the members as it likes and escape
    characters; none of that changes the classification."""
    out = []
    for mode, pool in (("v5", TEMPLATES_V5), ("v1", TEMPLATES_V1)):
        for name in sorted(pool):
            for sp in ("plain", "spaced", "padded-2k", "padded-1MiB", "padded-3MiB", "reordered",
                       "escaped", "crlf", "tabs-and-newlines-inside"):
                out.append({"mode": mode, "tpl": name, "spelling": sp})
    return out


def _spell(req, sp):
    text = json.dumps(req)
    if sp == "spaced":
        return json.dumps(req, indent=2).replace("\n", " ").encode()
    if sp.startswith("padded"):
        n = {"padded-2k": 2048, "padded-1MiB": (1 << 20) + 17, "padded-3MiB": 3 << 20}[sp]
        return (text[:1] + " " * n + text[1:]).encode()
    if sp == "reordered":
        return json.dumps(dict(reversed(list(req.items())))).encode()
    if sp == "escaped":
        esc = lambda t: "".join("\\u%04x" % ord(ch) for ch in t)      # noqa: E731
        return ("{" + ",".join('"%s":%s' % (esc(k), json.dumps(v)) for k, v in req.items()) +
                "}").encode()
    if sp == "crlf":
        return text.encode() + b"\r"
    if sp == "tabs-and-newlines-inside":
        return text.replace(", ", ",\t").replace(": ", ":\t ").encode()
    return text.encode()


def run_spelling(c):
    mode = c["mode"]
    tpl = (TEMPLATES_V5 if mode == "v5" else TEMPLATES_V1)[c["tpl"]]
    w = mw.default_world()
    w.adv_plan = {"final": "total"}
    p = mw.stack(w, v1=(mode == "v1"))
    h = mw.handler(p)
    raw = _spell(tpl, c["spelling"])
    if b"\n" in raw:
        raise HarnessError("a request is one line")
    mark = len(w.log)
    out, exc = mw.serve_line(h, raw)
    mw.check_sim(w)
    rep = mw.parse_reply(out)
    if exc is not None or rep is None:
        raise Violation("spelling-not-answered:" + c["spelling"], "%s/%s: %r %r" % (
            mode, c["tpl"], out[:80], exc))
    if rep["errorcode"] not in (0, 1) or (c["tpl"] != "version" and not w.apdus(mark)):
        raise Violation("verdict:%s-not-in:ACC" % rep["errorcode"], "mode %s, the documented "
                        "%s request written '%s' (%d bytes) -> %r" % (
                            mode, c["tpl"], c["spelling"], len(raw), rep))
    return Out(["spelling:" + c["spelling"], "mode:" + mode], True)


class WarmSingleMutations:
    """The single-mutation enumeration once more, each request arriving right after the
    un-mutated request of its template was served by the same manager, and - when refused - sent
    a second time: what an earlier request left behind does not let a defective one through."""

    def __init__(self, tier=None, seed=None):
        self.sm = SingleMutations()

    def __len__(self):
        return len(self.sm)

    def __getitem__(self, i):
        c = dict(self.sm[i])
        c["warm"] = True
        return c


class PendingSingleMutations:
    """The single-mutation enumeration again, each request arriving while a reconnection is
    pending after a link failure."""

    def __init__(self, tier=None, seed=None):
        self.sm = SingleMutations()

    def __len__(self):
        return len(self.sm)

    def __getitem__(self, i):
        c = dict(self.sm[i])
        c["pending"] = True
        return c


MEMBER_NAMES = [("hash", "aa" * 32), ("tx", mw.NOMINAL_TX), ("input", 0),
                ("sighashComputationMode", "legacy"), ("witnessScript", "5152"),
                ("outpointValue", 1234), ("auth", {"receipt": "c3010203",
                                                   "receipt_merkle_proof": ["aabb"]}),
                ("receipt", "c3010203"), ("receipt_merkle_proof", ["aabb"]),
                ("message", {"hash": "aa" * 32}), ("keyId", "m/44'/0'/0'/0/0"),
                ("blocks", ["aa"]), ("brothers", [[]]), ("udValue", "11" * 16),
                ("extra", "x")]


class SingleMutations:
    """Complete enumeration of single mutations: every node of every documented request
    template (both modes) x {deleted, replaced by every value of its type-directed pool and of a
    small cross-type pool}."""

    def __init__(self, tier=None, seed=None):
        self.items = []
        for mode, pool in (("v5", TEMPLATES_V5), ("v1", TEMPLATES_V1)):
            for name in sorted(pool):
                tpl = pool[name]
                for p in paths(tpl):
                    cur = tpl
                    for k in p:
                        cur = cur[k]
                    if type(cur) is int:
                        pl, kind = INT_POOL, "int"
                    elif type(cur) is str:
                        pl, kind = STR_POOL, "str"
                    elif type(cur) is list:
                        pl, kind = LIST_POOL, "list"
                    else:
                        pl, kind = DICT_POOL, "dict"
                    field = ".".join(str(x) if not isinstance(x, int) else "#" for x in p) or \
                        "<root>"
                    if p:
                        self.items.append((mode, name, p, "delete", None, field))
                    seen = []
                    for v in list(pl) + CROSS_POOL:
                        if any(v == x and type(v) is type(x) for x in seen):
                            continue
                        seen.append(v)
                        self.items.append((mode, name, p, "replace-" + kind, v, field))
                    if type(cur) is dict:
                        # a member the protocol knows from elsewhere (another command, the
                        # other message format) added to this object, well-typed and not
                        for nm, good in MEMBER_NAMES:
                            if nm in cur:
                                continue
                            for v in (good, 123, None, True, [], {}, "zz"):
                                self.items.append((mode, name, p, "addkey", [nm, v], field))

    def __len__(self):
        return len(self.items)

    def __getitem__(self, i):
        mode, name, p, kind, v, field = self.items[i]
        pool = TEMPLATES_V5 if mode == "v5" else TEMPLATES_V1
        req = copy.deepcopy(pool[name])
        if kind == "delete":
            req = setp(req, list(p), None, delete=True)
        elif kind == "addkey":
            cur = req
            for k in p:
                cur = cur[k]
            cur[v[0]] = copy.deepcopy(v[1])
        else:
            req = setp(req, list(p), copy.deepcopy(v))
        return {"mode": mode, "tpl": name, "muts": ["%s:%s" % (kind, field)], "req": req}


REQUIRED_LABELS = {
    t: ["mode:v5", "mode:v1", "verdict:ACC", "verdict:-901", "verdict:-902", "verdict:-903",
        "verdict:-904", "verdict:-101", "verdict:-102", "verdict:-103", "verdict:-204",
        "verdict:-205", "verdict:-301", "verdict:-2", "verdict:-666", "mut:delete",
        "mut:replace-int", "mut:replace-str", "mut:replace-list", "mut:replace-dict",
        "mut:addkey", "ambiguous", "reconnection-pending", "after-the-nominal-request",
        "spelling:padded-3MiB", "spelling:escaped", "seq:obo", "seq:obb", "seq:boo"] + ["tpl:" + n for n in TEMPLATES_V5]
    for t in ("quick", "thorough")}


def gate(tier, labels, evaluations):
    classes = [k for k in labels if k.startswith("class:")]
    need = 150 if tier == "quick" else 300
    if len(classes) < need:
        return ["only %d distinct (template, mutation, field) classes, need %d" % (
            len(classes), need)]
    return []

# ------------------------------------------------------------------ sequences on one manager

def _seq_pool(mode):
    """The documented requests, plus requests the documentation refuses for a reason of their
    own (each classified by the specification model, none of them ambiguous)."""
    if mode == "v1":
        pool = dict(("ok:" + k, v) for k, v in TEMPLATES_V1.items())
        pool["bad:hash"] = dict(TEMPLATES_V1["sign"], message="aa" * 31)
        pool["bad:key-type"] = dict(TEMPLATES_V1["getPubKey"], keyId=5)
        return pool
    T = TEMPLATES_V5
    pool = dict(("ok:" + k, v) for k, v in T.items())

    def with_msg(name, **kw):
        r = copy.deepcopy(T[name])
        r["message"].update(kw)
        return r
    pool["bad:tx-truncated"] = with_msg("sign_auth", tx=mw.NOMINAL_TX[:-10])
    pool["bad:tx-truncated-segwit"] = with_msg("sign_segwit", tx=mw.NOMINAL_TX[:-10])
    pool["bad:tx-empty-script"] = with_msg("sign_auth", tx=mw.NOMINAL_TX.replace(
        "03" + "00" + "0151", "00"))
    pool["bad:hash"] = with_msg("sign_unauth", hash="aa" * 31)
    pool["bad:key"] = dict(T["getPubKey"], keyId="m/44'/0'/0'/0")
    pool["bad:no-auth"] = {k: v for k, v in T["sign_auth"].items() if k != "auth"}
    pool["bad:block"] = dict(T["advance"], blocks=[5, T["advance"]["blocks"][1]])
    pool["bad:version"] = dict(T["state"], version=4)
    pool["bad:command"] = {"command": "nothing-like-it", "version": 5}
    return pool


def sequence_cases(tier, seed):
    """Ordered pairs and triples of requests served by ONE manager: what one request leaves
    behind in the manager must not change how the next one is classified."""
    out = []
    for mode in ("v5", "v1"):
        names = sorted(_seq_pool(mode))
        for a in names:
            for b in names:
                if tier == "thorough" and mode == "v5":
                    out.extend({"mode": mode, "names": [a, b, c]} for c in names)
                else:
                    out.extend({"mode": mode, "names": [a, b, c]} for c in sorted({a, b}))
    return out


def run_sequence(c):
    mode = c["mode"]
    pool = _seq_pool(mode)
    w = mw.default_world()
    w.adv_plan = {"final": "total"}
    p = mw.stack(w, v1=(mode == "v1"))
    labels = ["mode:" + mode, "sequence"]
    for i, name in enumerate(c["names"]):
        req = copy.deepcopy(pool[name])
        line = json.dumps(req)
        mark = len(w.log)
        rep = p.handle_request(json.loads(line))
        mw.check_sim(w)
        where = "mode %s, request #%d of the sequence %s on one manager" % (mode, i + 1,
                                                                             c["names"])
        if not isinstance(rep, dict) or type(rep.get("errorcode")) is not int:
            raise Violation("reply-shape", "%s: %s -> %r" % (where, line[:300], rep))
        apdus = w.apdus(mark)
        is_version = req.get("command") == "version"
        verdict = "ACC" if apdus or (is_version and rep["errorcode"] == 0) else rep["errorcode"]
        al, amb = spec.allowed(json.loads(line), mode)
        if amb:
            raise HarnessError("sequence pool entry %s is ambiguous" % name)
        if name.startswith("ok:") and "ACC" not in al or name.startswith("bad:") and "ACC" in al:
            raise HarnessError("sequence pool entry %s: model allows %r" % (name, al))
        if verdict not in al:
            kind = "device-contacted-for-defective-request" if verdict == "ACC" else \
                "verdict:%s-not-in" % verdict
            raise Violation("%s:%s" % (kind, "/".join(str(x) for x in sorted(al, key=str))),
                            "%s: %s -> %r (%d APDUs); docs allow %s" % (
                                where, line[:300], rep, len(apdus), sorted(al, key=str)))
        if name.startswith("ok:") and not is_version and rep["errorcode"] not in (0, 1):
            # the simulated device serves every documented request: an accepted request that
            # is answered with a failure was not relayed as asked (or not at all)
            raise Violation("accepted-request-not-served", "%s: %s -> %r" % (
                where, line[:300], rep))
        _documented_code(mode, req, rep, line)
    kinds = "".join(n[0] for n in c["names"])          # e.g. "obb": ok, bad, bad
    labels.append("seq:" + kinds)
    return Out(labels, len(set(c["names"])) >= 2)


def stages(tier):
    from vlib.runner import EnumStage
    return [EnumStage("single-mutations", SingleMutations, run_case,
                      exhaustive={"quick": True, "thorough": True},
                      budget_s={"quick": 300, "thorough": 300}),
            EnumStage("spellings-through-the-server", spelling_cases, run_spelling,
                      exhaustive={"quick": True, "thorough": True},
                      budget_s={"quick": 180, "thorough": 120}),
            EnumStage("single-mutations-after-the-nominal-request", WarmSingleMutations,
                      run_case, exhaustive={"quick": True, "thorough": True},
                      budget_s={"quick": 300, "thorough": 300}),
            EnumStage("single-mutations-reconnection-pending", PendingSingleMutations, run_case,
                      exhaustive={"quick": True, "thorough": True},
                      budget_s={"quick": 300, "thorough": 300}),
            EnumStage("request-sequences", sequence_cases, run_sequence,
                      exhaustive={"quick": True, "thorough": True},
                      budget_s={"quick": 300, "thorough": 900}),
            HypStage("classify", lambda t: cases(t), run_case,
                     {"quick": 1500, "thorough": 40000},
                     budget_s={"quick": 300, "thorough": 900})]
