"""C05 - advance / ancestor update hand the device the client's blocks intact."""
from hypothesis import strategies as st

from vlib.core import Violation, Out
from vlib.runner import HypStage
from vlib import mw, refs
from vlib.device import Policy
from vlib.strategies import chunk_policy

ID = "C05"
LEVEL = "exploration"
RULE = ("1..3 block requests on one manager (the second unrelated, or re-sending headers of the first with another merkle proof / coinbase; up to two other commands - signing, queries, a refused advance - served in between); each: Hypothesis-generated lists of RSK headers (17..20 RLP fields over short/long/single-byte "
        "forms, compressed coinbase from a drawn midstate split) with 0..10 (thorough ..20) "
        "brothers each x device plans (chunk policy, which blocks it asks brothers for, early "
        "total success, final partial/total); non-trivial = >= 2 blocks and (a brother list of "
        ">= 2 asked for or a header spanning >= 2 chunks); distinct by case fingerprint")
ASSUMPTIONS = [
    "simulated device reassembles headers from the RLP list header on the wire only",
    "expected metadata from the harness's own RLP encoder, hashlib SHA-256 over the FULL "
    "coinbase transaction and pycryptodome Keccak-256 (none of them the code under test's)",
]
REQUIRED_LABELS = {t: ["advance", "ancestor", "asked-brothers>=2", "multi-chunk-header",
                       "stop-early", "stop-early-partial", "history", "interlude", "trailing-bytes:advance", "trailing-bytes:ancestor", "same-hash-other-coinbase", "final:partial", "final:total", "fields:17", "fields:18",
                       "fields:19", "fields:20", "code:0", "code:1", "mm-len:55", "mm-len:56", "mm-len:255", "asked-brothers:10",
                       "mm-len:256"]
                   for t in ("quick", "thorough")}


def field():
    return st.one_of(st.binary(max_size=40), st.binary(min_size=56, max_size=90),
                     st.binary(min_size=1, max_size=1), st.binary(min_size=32, max_size=32),
                     st.binary(min_size=250, max_size=300),
                     # the edges of the RLP string forms
                     st.sampled_from([0, 1, 55, 56, 255, 256]).flatmap(
                         lambda n: st.binary(min_size=n, max_size=n)))


@st.composite
def block(draw, kinds, big_cb, sized=True):
    nf = draw(st.sampled_from(kinds))
    nbase = 16 if nf in (17, 19) else 17
    fields = [draw(field()) for _ in range(nbase)]
    if sized and draw(st.integers(0, 5)) == 0:
        # the part before the merge-mining fields encodes to a payload of exactly T bytes: the
        # edges of the RLP list prefix forms (short / one / two length bytes) and of the
        # two-byte length in the metadata
        T = draw(st.sampled_from([55, 55, 56, 56, 255, 256, 65535]))
        e = T - (nbase - 1)
        ln = e - 1 if e <= 56 else (e - 2 if e - 2 <= 255 else e - 3)
        fields = [b""] * nbase
        fields[draw(st.integers(0, nbase - 1))] = bytes([0x80 | draw(st.integers(0, 127))]) * ln
    fields.append(draw(st.binary(min_size=80, max_size=80)))
    b = {"fields": fields, "full_cb": None}
    if nf >= 19:
        fields.append(draw(st.binary(max_size=96)))
        full = draw(st.binary(min_size=65, max_size=2000 if big_cb else 300))
        k = draw(st.integers(0, len(full) // 64))
        fields.append(refs.compress_coinbase(full, k))
        b["full_cb"] = full
        if draw(st.integers(0, 7)) == 0:
            # a coinbase transaction known only by its compressed form, with a count of hashed
            # bytes far beyond anything that could be spelt out (the bit length in the padding
            # needs more than 32 bits)
            cnt = draw(st.sampled_from([2 ** 29 - 64, 2 ** 29, 2 ** 29 + 64, 2 ** 32, 2 ** 35,
                                        2 ** 48 + 128, 2 ** 60]))
            mid = draw(st.binary(min_size=32, max_size=32))
            tail = draw(st.one_of(st.binary(min_size=63, max_size=64),
                                  st.binary(min_size=1, max_size=130)))
            fields[-1] = cnt.to_bytes(8, "big") + mid + tail
            b["full_cb"] = None
            b["cb_synth"] = [cnt, mid, tail]
    return b


@st.composite
def cases(draw, tier):
    """1..2 block requests against ONE manager and device."""
    first = draw(one_request(tier))
    seq = [first]
    k = draw(st.integers(0, 5))
    if k == 0:
        seq.append(draw(one_request(tier)))
    elif k == 1 and first["kind"] == "advance":
        # a related request: some of the same headers again (same hash-relevant fields) with
        # another merkle proof / coinbase transaction, as a retry by another miner would look
        nxt = draw(one_request(tier))
        nxt["kind"] = "advance"
        blocks = []
        for b in first["blocks"][:draw(st.integers(1, len(first["blocks"])))]:
            nb = {"fields": list(b["fields"]), "full_cb": b["full_cb"]}
            if b.get("cb_synth"):
                nb["cb_synth"] = b["cb_synth"]
            if draw(st.booleans()):
                full = draw(st.binary(min_size=65, max_size=300))
                kk = draw(st.integers(0, len(full) // 64))
                nb["fields"][-1] = refs.compress_coinbase(full, kk)
                nb["full_cb"] = full
                nb.pop("cb_synth", None)
            if draw(st.booleans()):
                nb["fields"][-2] = draw(st.binary(max_size=96))
            blocks.append(nb)
        nxt["blocks"] = blocks
        nxt["bros"] = [[] for _ in blocks]
        nxt["ask"] = [draw(st.booleans()) for _ in blocks]
        nxt["stop"] = None
        seq.append(nxt)
    if len(seq) >= 2 and draw(st.booleans()):
        seq.append(draw(one_request(tier)))
    if draw(st.integers(0, 7)) == 0:
        # one block of the last request is followed by further bytes in its hex text (a second
        # header, a stray byte): whatever the manager makes of it, it does not report success
        # for a block the device was not given as the client wrote it
        last = seq[-1]
        last["trailing"] = [draw(st.integers(0, len(last["blocks"]) - 1)),
                            draw(st.sampled_from(["00", "c0", "80", "self", "ff" * 5]))]
        last["stop"] = None
    for c in seq[1:]:
        # other commands served by the same manager between two block requests
        c["interlude"] = draw(st.lists(st.sampled_from(mw.INTERLUDES), max_size=2))
    return {"seq": seq}


@st.composite
def one_request(draw, tier):
    thorough = tier == "thorough"
    kind = draw(st.sampled_from(["advance", "advance", "ancestor"]))
    nb = draw(st.integers(1, 30 if thorough and draw(st.integers(0, 9)) == 0 else 6))
    big_cb = draw(st.integers(0, 3)) == 0
    if kind == "advance":
        blocks = [draw(block([19, 20], big_cb)) for _ in range(nb)]
        maxb = 20 if thorough and draw(st.integers(0, 9)) == 0 else 10
        bros = []
        for _ in range(nb):
            nbro = draw(st.one_of(st.integers(0, 3), st.integers(0, maxb),
                                  st.sampled_from([9, 10])))
            if nbro >= 4:
                # many brothers: variations of one drawn header (a list of ten independently
                # drawn headers is more than a generated case can hold)
                # (not one of the 64 KiB headers: nine or ten of those, taken a byte at a time,
                #  make a case of minutes)
                base = draw(block([19, 20], False, sized=False))
                lst = []
                for k in range(nbro):
                    b2 = dict(base, fields=list(base["fields"]))
                    tag = bytes([k]) + draw(st.binary(min_size=2, max_size=2))
                    # (in place where a field is long enough: the header keeps its size)
                    j = next((j for j in range(len(b2["fields"]) - 3)
                              if len(b2["fields"][j]) >= 3), None)
                    if j is None:
                        b2["fields"][0] = tag
                    else:
                        b2["fields"][j] = tag + b2["fields"][j][3:]
                    lst.append(b2)
                bros.append(lst)
            else:
                bros.append([draw(block([19, 20], False)) for _ in range(nbro)])
        ask = draw(st.lists(st.booleans(), min_size=nb, max_size=nb))
    else:
        blocks = [draw(block([17, 18, 19, 20], big_cb)) for _ in range(nb)]
        bros, ask = None, None
    return {"kind": kind, "blocks": blocks, "bros": bros, "ask": ask,
            "policy": draw(chunk_policy()),
            "final": draw(st.sampled_from(["total", "partial"])),
            "stop": draw(st.one_of(st.none(), st.integers(1, nb))),
            # what the device reports when it stops before the last block
            "stop_final": draw(st.sampled_from(["total", "partial"]))}


def enc(b):
    return refs.rlp_list(b["fields"])


def n_mm(b):
    """number of trailing merge-mining fields (BTC header [+ merkle proof + coinbase])"""
    return 3 if len(b["fields"]) in (19, 20) else 1


def hash_relevant(b):
    f = b["fields"]
    return refs.rlp_list(f[:-2] if len(f) in (19, 20) else f)


def bhash(b):
    return refs.keccak256(hash_relevant(b))


def mm_len(b):
    return len(refs.rlp_list_payload(b["fields"][:-n_mm(b)]))


def meta(b, adv):
    m = mm_len(b).to_bytes(2, "big")
    if adv and b.get("cb_synth"):
        m += refs.synthetic_coinbase_hash(*b["cb_synth"])
    elif adv:
        m += refs.coinbase_hash(b["full_cb"])
    return m


def run_case(h):
    seq = h["seq"] if "seq" in h else [h]
    w = mw.default_world()
    p = mw.stack(w)
    labels = ["history"] if len(seq) >= 2 else []
    if len(seq) >= 2 and seq[0]["kind"] == seq[1]["kind"] == "advance" and any(
            bhash(a) == bhash(b) and a["fields"] != b["fields"]
            for a in seq[0]["blocks"] for b in seq[1]["blocks"]):
        labels.append("same-hash-other-coinbase")
    nt = False
    for c in seq:
        if c.get("interlude") and c is not seq[0]:
            labels.extend(mw.interlude(p, w, c["interlude"], False))
            if labels[-1] == "manager-stopped":
                break
            labels.append("interlude")
        out = run_one(c, w, p)
        labels.extend(out.labels)
        nt = nt or out.nontrivial
    return Out(labels, nt)


def run_one(c, w, p):
    adv = c["kind"] == "advance"
    n_rx = len(w.adv_rx)
    w.policy = Policy(c["policy"])
    nb = len(c["blocks"])
    w.adv_plan = {"final": c["final"], "success_after": c["stop"], "max_brothers": 255,
                  "stop_final": c.get("stop_final", "total")}
    if adv:
        w.adv_plan["brothers"] = {str(i): a for i, a in enumerate(c["ask"])}
    if adv:
        req = {"command": "advanceBlockchain", "version": 5,
               "blocks": [enc(b).hex() for b in c["blocks"]],
               "brothers": [[enc(b).hex() for b in bl] for bl in c["bros"]]}
    else:
        req = {"command": "updateAncestorBlock", "version": 5,
               "blocks": [enc(b).hex() for b in c["blocks"]]}
    if c.get("trailing"):
        i, extra = c["trailing"]
        req["blocks"][i] += req["blocks"][i] if extra == "self" else extra
    mark = len(w.log)
    rep = mw.request(p, req)
    mw.check_sim(w)
    labels = [c["kind"]]
    if not isinstance(rep, dict) or type(rep.get("errorcode")) is not int:
        raise Violation("reply-shape", repr(rep)[:300])
    if c.get("trailing"):
        # the device (which takes a block for what its RLP prefix says, and refuses a byte more)
        # cannot have been given this text intact: success would mean it was given another
        if rep["errorcode"] in (0, 1):
            got = [bytes(it["buf"]).hex() for rx_ in w.adv_rx[n_rx:] for it in rx_["blocks"]]
            raise Violation("block-with-trailing-bytes-reported-successful", "%s: block %d of "
                            "the request is %d hex digits long, reply %r, the device was given "
                            "blocks of %r hex digits" % (c["kind"], i, len(req["blocks"][i]), rep,
                                                        [len(g) for g in got]))
        return Out(labels + ["trailing-bytes:" + c["kind"]], True)
    nsent = c["stop"] if c["stop"] else nb
    if c["stop"]:
        total = c.get("stop_final", "total") == "total" or not adv
    else:
        total = c["final"] == "total" or not adv
    exp_code = 0 if total else 1
    if adv and rep == {"errorcode": -205} and len(w.adv_rx) == n_rx and not w.apdus(mark):
        # refused before the device heard of it: that is open to the manager for brother lists
        # the documentation rules out (more than 10 brothers, the same brother twice)
        encs = [[enc(b) for b in bl] for bl in c["bros"]]
        if any(len(bl) > 10 or len(set(bl)) != len(bl) for bl in encs):
            return Out(labels + ["refused-undocumented-brother-list"], False)
    if rep != {"errorcode": exp_code}:
        raise Violation("reply-vs-device-result", "device reported %s success, reply %r" % (
            "total" if total else "partial", rep))
    labels.append("code:%d" % exp_code)
    if len(w.adv_rx) - n_rx != 1:
        raise Violation("sessions", "device completed %d block sessions" % (len(w.adv_rx) -
                                                                            n_rx))
    rx = w.adv_rx[-1]
    if rx["n"] != nb:
        raise Violation("announced-count", "announced %d, client sent %d" % (rx["n"], nb))
    if len(rx["blocks"]) != nsent:
        raise Violation("blocks-received", "device received %d blocks, expected %d" % (
            len(rx["blocks"]), nsent))
    multi_chunk = False
    asked2 = False
    for i, it in enumerate(rx["blocks"]):
        b = c["blocks"][i]
        want = enc(b) if adv else hash_relevant(b)
        got = bytes(it["buf"])
        if got != want:
            raise Violation("block-bytes" if adv else "ancestor-block-bytes",
                            "block %d: device holds %s..., expected %s..." % (
                                i, got.hex()[:120], want.hex()[:120]))
        if not adv and refs.keccak256(got) != bhash(b):
            raise Violation("ancestor-hash-changed", "block %d" % i)
        if it["meta"] != meta(b, adv):
            raise Violation("block-metadata", "block %d: metadata %s expected %s" % (
                i, it["meta"].hex(), meta(b, adv).hex()))
        if len(it["chunks"]) >= 2:
            multi_chunk = True
        labels.append("fields:%d" % len(b["fields"]))
        if mm_len(b) in (55, 56, 255, 256, 65535):
            labels.append("mm-len:%d" % mm_len(b))
        if adv and c["ask"][i]:
            exp = sorted(c["bros"][i], key=bhash)
            if it["nbro"] != len(exp):
                raise Violation("brother-count", "block %d: %r vs %d" % (i, it["nbro"], len(exp)))
            gotb = [bytes(x["buf"]) for x in it["brothers"]]
            if gotb != [enc(x) for x in exp]:
                if sorted(gotb) == sorted(enc(x) for x in exp):
                    raise Violation("brother-order", "block %d: brothers not ascending by hash"
                                    % i)
                raise Violation("brother-bytes", "block %d: brothers differ from the client's "
                                "list for that block" % i)
            if [x["meta"] for x in it["brothers"]] != [meta(x, True) for x in exp]:
                raise Violation("brother-metadata", "block %d" % i)
            if len(exp) >= 2:
                asked2 = True
            if len(exp) in (9, 10):
                labels.append("asked-brothers:%d" % len(exp))
        elif adv:
            if it["brothers"] is not None:
                raise Violation("brothers-unasked", "block %d" % i)
    if multi_chunk:
        labels.append("multi-chunk-header")
    if asked2:
        labels.append("asked-brothers>=2")
    if c["stop"] and c["stop"] < nb:
        labels.append("stop-early")
        if adv and not total:
            labels.append("stop-early-partial")
    labels.append("final:" + c["final"])
    return Out(labels, nb >= 2 and (asked2 or multi_chunk))


def stages(tier):
    return [HypStage("blocks", lambda t: cases(t), run_case, {"quick": 250, "thorough": 2500},
                     budget_s={"quick": 300, "thorough": 1200})]
