"""C14 - clearing of signature placeholders is canonical and loses nothing else."""
import copy

from hypothesis import strategies as st

from vlib.core import Violation, Out, HarnessError
from vlib.runner import HypStage
from vlib import mw, refs
from vlib.strategies import txs, script_op

import comm.bitcoin as cb

ID = "C14"
LEVEL = "exploration"
RULE = ("Hypothesis-generated transaction ASTs (1..20 inputs, 1..8 script ops with every push "
        "encoding, small-int opcodes and arbitrary opcodes, redeem-script sized last pushes, "
        "0..20 outputs), pairs differing only in non-final operations, and malformed variants "
        "(truncation at every offset class, trailing bytes, empty script, truncated push); "
        "non-trivial = >= 2 inputs with a non-minimal push, or a pair, or a malformed variant; "
        "distinct by case fingerprint")
ASSUMPTIONS = [
    "python-bitcoinlib stand-in (/verif/shims) provides parsing/serialization to the code under "
    "test; expectations are computed on the AST by the harness's own serializer and parser",
]
REQUIRED_LABELS = {t: ["kind:ast", "kind:pair", "kind:malformed", "mal:truncate", "mal:trailing",
                       "mal:empty-script", "mal:truncated-push", "non-minimal-push",
                       "last-op:opcode", "last-op:push", "inputs>=2", "bip144", "link:fresh",
                       "link:repair-pending", "link:after-a-valid-sign", "sighash:legacy",
                       "sighash:segwit"]
                   for t in ("quick", "thorough")}


@st.composite
def cases(draw, tier):
    tx = draw(txs(max_in=20 if draw(st.integers(0, 5)) == 0 else 5, max_ops=8,
                  max_out=20 if draw(st.integers(0, 5)) == 0 else 4))
    k = draw(st.integers(0, 9))
    if k <= 4:
        return {"kind": "ast", "tx": tx}
    if k <= 6:
        tx2 = copy.deepcopy(tx)
        for inp in tx2[1]:
            for j in range(len(inp[2]) - 1):
                if draw(st.booleans()):
                    inp[2][j] = draw(script_op())
        return {"kind": "pair", "tx": tx, "tx2": tx2}
    m = draw(st.sampled_from(["truncate", "trailing", "empty-script", "truncated-push"]))
    c = {"kind": "malformed", "tx": tx, "mal": m,
         # the refusal is the same whatever state the link is in: fresh, or with a repair pending
         # after a failed exchange of an earlier request
         "link": draw(st.sampled_from(["fresh", "repair-pending", "after-a-valid-sign",
                                       "after-a-valid-sign"])),
         "mode": draw(st.sampled_from(["legacy", "segwit"]))}
    raw = refs.tx_bytes(tx)
    if m == "truncate":
        c["at"] = draw(st.one_of(st.integers(0, len(raw) - 1),
                                 st.sampled_from([0, 3, 4, 5, len(raw) - 1, len(raw) - 4])))
        c["at"] = max(0, min(len(raw) - 1, c["at"]))
    elif m == "trailing":
        c["extra"] = draw(st.binary(min_size=1, max_size=8))
    elif m == "empty-script":
        c["input"] = draw(st.integers(0, len(tx[1]) - 1))
    else:
        c["input"] = draw(st.integers(0, len(tx[1]) - 1))
        c["enc"] = draw(st.sampled_from(["direct", "pd1", "pd2", "pd4", "pd1-nolen", "pd2-nolen",
                                         "pd4-nolen"]))
    return c


def check_unsigned(tx, out, labels=None):
    try:
        v, ins, outs, lt, wit = refs.parse_tx_any(out)
    except ValueError as e:
        raise Violation("unsigned-undecodable", "%s: %s" % (out.hex()[:200], e))
    tv, tins, touts, tlt = tx[:4]
    if labels is not None and len(tx) > 4:
        # the statement lists what is kept; witness stacks are not on the list (C01 asserts
        # that the device gets them): recorded only
        labels.append("bip144")
        labels.append("witness-kept" if wit == [[bytes(i) for i in st_] for st_ in tx[4]]
                      else "witness-not-kept")
    if v != tv:
        raise Violation("version-changed", "%r vs %r" % (v, tv))
    if lt != tlt:
        raise Violation("locktime-changed", "%r vs %r" % (lt, tlt))
    if [(a, bytes(b)) for a, b in outs] != [(a, b) for a, b in touts]:
        raise Violation("outputs-changed", "")
    if len(ins) != len(tins):
        raise Violation("input-count-changed", "%d vs %d" % (len(ins), len(tins)))
    for i, ((h, n, s, q), (th, tn, tops, tq)) in enumerate(zip(ins, tins)):
        if (h, n) != (th, tn):
            raise Violation("outpoint-changed", "input %d" % i)
        if q != tq:
            raise Violation("sequence-changed", "input %d" % i)
        allowed = {b"\x00" * (len(tops) - 1) + e for e in refs.op_canonical_forms(tops[-1])}
        if s not in allowed:
            raise Violation("script-not-canonical", "input %d: %s not in %s" % (
                i, s.hex()[:160], sorted(a.hex()[:160] for a in allowed)))


def unsign(raw_hex):
    try:
        return cb.get_unsigned_tx(raw_hex)
    except BaseException:
        mw.check_sim(None)       # a gap of the stand-in package is a harness error
        raise


def through_protocol(raw_hex, link="fresh", mode="legacy"):
    w = mw.default_world()
    p = mw.stack(w)
    if link == "repair-pending":
        w.faults[w.nex] = "read"
        r0 = mw.request(p, mw.nominal_requests()["getPubKey"])
        if r0 != {"errorcode": -905}:
            raise HarnessError("link failure did not give -905: %r" % (r0,))
    req = copy.deepcopy(mw.nominal_requests()["sign_auth" if mode == "legacy"
                                              else "sign_segwit"])
    if link == "after-a-valid-sign":
        # the manager has just signed for a decodable transaction (whatever it may remember
        # of it must not make the next, undecodable one pass)
        r0 = mw.request(p, copy.deepcopy(req))
        if r0.get("errorcode") != 0:
            raise HarnessError("nominal sign failed: %r" % (r0,))
    req["message"]["tx"] = raw_hex
    reps, contact = [], []
    for _ in range(2):
        # the very same refused request once more: refused again, for the same reason
        mark = len(w.log)
        reps.append(mw.request(p, copy.deepcopy(req)))
        contact += [e for e in w.log[mark:]
                    if e[0] in ("apdu", "connect", "connect_fail", "close")]
    if reps[0] == {"errorcode": -102} and reps[1] != reps[0]:
        return {"errorcode": "first -102, then %r" % (reps[1],)}, contact
    return reps[0], contact


def run_case(c):
    tx = c["tx"]
    raw = refs.tx_bytes(tx)
    labels = ["kind:" + c["kind"]]
    nonmin = any(o[0] == "push" and refs.op_bytes(o) != refs.minimal_push(o[1])
                 for inp in tx[1] for o in inp[2])
    if nonmin:
        labels.append("non-minimal-push")
    if len(tx[1]) >= 2:
        labels.append("inputs>=2")
    for inp in tx[1]:
        labels.append("last-op:" + ("push" if inp[2][-1][0] == "push" else "opcode"))
    if c["kind"] in ("ast", "pair"):
        out_hex = unsign(raw.hex())
        out = bytes.fromhex(out_hex)
        mw.check_sim(None)
        check_unsigned(tx, out, labels)
        again = unsign(out_hex)
        if again != out_hex:
            raise Violation("not-idempotent", "%s -> %s" % (out_hex[:200], again[:200]))
        if c["kind"] == "pair":
            out2 = unsign(refs.tx_bytes(c["tx2"]).hex())
            if out2 != out_hex:
                raise Violation("depends-on-non-final-ops", "%s vs %s" % (out_hex[:200],
                                                                         out2[:200]))
        # the transformation is a function of its input only: asking again, after other
        # transactions went through, gives the same answer
        if unsign(raw.hex()) != out_hex:
            raise Violation("depends-on-call-history", "second call differs from the first")
        return Out(labels, c["kind"] == "pair" or (nonmin and len(tx[1]) >= 2))
    m = c["mal"]
    labels.append("mal:" + m)
    if m == "truncate":
        bad = raw[:c["at"]]
    elif m == "trailing":
        bad = raw + c["extra"]
    else:
        v, ins, outs, lt = tx[:4]
        sins = []
        for i, (h, n, ops, q) in enumerate(ins):
            s = b"".join(refs.op_bytes(o) for o in ops)
            if i == c["input"]:
                if m == "empty-script":
                    s = b""
                else:
                    e = c["enc"]
                    tail = {"direct": b"\x05\x01\x02", "pd1": b"\x4c\x05\x01", "pd2":
                            b"\x4d\x05\x00\x01", "pd4": b"\x4e\x05\x00\x00\x00\x01",
                            "pd1-nolen": b"\x4c", "pd2-nolen": b"\x4d\x05",
                            "pd4-nolen": b"\x4e\x05\x00"}[e]
                    s = s + tail
            sins.append((h, n, s, q))
        bad = refs.ser_tx(v, sins, outs, lt) if len(tx) == 4 else \
            refs.ser_tx_witness(v, sins, outs, lt, tx[4])
    if len(bad) == 0:
        return Out(labels + ["empty-hex"], False)     # empty hex is a validation matter (C02)
    link, mode = c.get("link", "fresh"), c.get("mode", "legacy")
    labels += ["link:" + link, "sighash:" + mode]
    rep, contact = through_protocol(bad.hex(), link, mode)
    mw.check_sim(None)
    if rep != {"errorcode": -102}:
        raise Violation("malformed-not-102:" + m, "tx %s (link %s) -> %r" % (
            bad.hex()[:200], link, rep))
    if contact:
        raise Violation("malformed-reached-device:" + m, "link %s: %r" % (
            link, [e[0] for e in contact][:10]))
    return Out(labels, True)


def stages(tier):
    return [HypStage("unsign", lambda t: cases(t), run_case, {"quick": 800, "thorough": 25000},
                     budget_s={"quick": 300, "thorough": 900})]
