"""C10 - the PIN kept on disk always opens the device."""
import builtins
import itertools
import os
import random as _random
import shutil
import string
import tempfile

from hypothesis import strategies as st

from vlib.core import Violation, Out
from vlib.runner import HypStage, EnumStage
from vlib import mw
from vlib.device import BOOT, SIGNER, Dead

import ledger.hsm2dongle as hd
import ledger.pin as lpin
from ledger.pin import FileBasedPin, PinError
from sgx.hsm2dongle import HSM2DongleSGX
from ledger.protocol import HSM2ProtocolLedger
from comm.protocol import HSM2ProtocolError, HSM2ProtocolInterrupt
from comm.platform import Platform

ID = "C10"
LEVEL = "fault_enumeration"
RULE = ("histories of 1..6 manager start-ups against one device and one PIN file: initial file "
        "state {present, absent, invalid}, forced change, device reaction to the new PIN {accept, "
        "refuse, status error, link error before apply, ack lost after apply, timeout}, file "
        "fault {none, open fails, write fails after truncation, directory takes no new entry, file unreadable}, crash at each step boundary "
        "{unlock, change received, change applied, file open, file write, after write}, for "
        "Ledger and SGX PIN commands, one scenario in eight through the manager programs "
        "(manager_ledger.py / manager_sgx.py as __main__, PIN in the environment, -X); complete "
        "enumeration of all single-start scenarios and of "
        "PIN changes that happen inside a request after a reconnection; PIN generator under a "
        "harness-controlled random source; "
        "non-trivial = history containing a PIN change attempt; distinct by history")
ASSUMPTIONS = [
    "a crash freezes the world: every later device or file operation of the dying process has "
    "no effect; crashes happen at middleware step boundaries, not inside the OS",
    "file faults are injected by replacing the name `open` in ledger.pin's namespace",
]
DEFAULT = b"abcd1234"
# "refuse-odd": refused in band with an answer byte that is neither the 'changed' nor the plain
# 'not changed' value
REACTIONS = ["accept", "refuse", "refuse-odd", "swerr", "comm", "ack-lost", "timeout"]
# "dir-no-create": the PIN file itself may be rewritten, but no entry may be created in, renamed
# into or removed from its directory (a file bind-mounted alone, a root-owned directory)
# "read": the PIN file exists but cannot be read (rights, I/O error)
FILE_FAULTS = [None, "open", "write", "dir-no-create", "read"]
CRASHES = [None, "unlock", "newpin_rx", "newpin_applied", "file_open_w", "file_write",
           "file_written"]
ALNUM = set((string.ascii_letters + string.digits).encode())
ALPHA = set(string.ascii_letters.encode())
KNOWN_SIG = "pin-lost:device-adopted-new-pin-but-file-does-not-hold-it"


def policy_ok(pin):
    return len(pin) == 8 and all(c in ALNUM for c in pin) and any(c in ALPHA for c in pin)


@st.composite
def start_op(draw):
    return {"force": draw(st.booleans()),
            "reaction": draw(st.sampled_from(REACTIONS + ["accept", "accept"])),
            "file_fault": draw(st.sampled_from(FILE_FAULTS + [None, None])),
            "crash_at": draw(st.sampled_from(CRASHES + [None, None, None])),
            # the manager speaks the legacy protocol to its clients (--version-one): the PIN
            # handling at start-up is the same
            "v1": draw(st.integers(0, 3)) == 0}


@st.composite
def cases(draw, tier):
    return {"platform": draw(st.sampled_from(["Ledger", "SGX"])),
            "path_style": draw(st.sampled_from(PATH_STYLES + ["plain"])),
            "file0": draw(st.sampled_from(["present", "absent", "absent", "invalid",
                                           "present-padded"])),
            "starts": draw(st.lists(start_op(), min_size=1, max_size=6)),
            # through manager_ledger.py / manager_sgx.py (command line, PIN in the environment)
            # instead of the classes they are made of
            "program": draw(st.integers(0, 7)) == 0}


PATH_STYLES = ["plain", "dotdot-through-symlink", "redundant-separators"]


def pin_path(style, name="pin.txt"):
    """The configured location of the PIN file, as an operator may write it. All of them name
    ONE file for the operating system; the harness reads and seeds the file through the very
    same string."""
    base = tmpdir()
    if style == "dotdot-through-symlink":
        # release layout: current -> releases/v5, PIN file kept beside the releases
        os.makedirs(os.path.join(base, "releases", "v5"), exist_ok=True)
        link = os.path.join(base, "current")
        if not os.path.islink(link):
            os.symlink(os.path.join("releases", "v5"), link)
        return os.path.join(base, "current", "..", name)
    if style == "redundant-separators":
        os.makedirs(os.path.join(base, "conf"), exist_ok=True)
        return base + "//conf/./" + name
    return os.path.join(base, name)


def single_starts(tier, seed):
    out = []
    for style, plat, file0, force, reaction, ff, crash in itertools.product(
            PATH_STYLES, ["Ledger", "SGX"], ["present", "absent", "invalid", "present-padded"],
            [False, True],
            REACTIONS, FILE_FAULTS, CRASHES):
        out.append({"platform": plat, "file0": file0, "path_style": style,
                    "starts": [{"force": force, "reaction": reaction, "file_fault": ff,
                                "crash_at": crash}]})
    for plat, file0, force, reaction, v1, program in itertools.product(
            ["Ledger", "SGX"], ["present", "absent", "invalid"], [False, True],
            ["accept", "refuse"], [False, True], [True, False]):
        if not v1 and not program:
            continue        # the product above
        out.append({"platform": plat, "file0": file0, "path_style": "plain", "program": program,
                    "starts": [{"force": force, "reaction": reaction, "file_fault": None,
                                "crash_at": None, "v1": v1},
                               {"force": False, "reaction": "accept", "file_fault": None,
                                "crash_at": None, "v1": v1}]})
    return out


_TMP = {}


def tmpdir():
    pid = os.getpid()
    if pid not in _TMP:
        _TMP[pid] = tempfile.mkdtemp(prefix="verif-c10-")
        import atexit
        atexit.register(shutil.rmtree, _TMP[pid], True)
    return _TMP[pid]


real_open = builtins.open


def read_file(pf):
    if not os.path.exists(pf):
        return None
    with real_open(pf, "rb") as f:
        return f.read()


def run_start(w, pf, op, platform, program=False):
    """One manager lifetime: load the PIN, bring the device up. Returns outcome details."""
    w.mode = BOOT
    w.unlocked = False
    w.dead = False
    w.newpin_behaviour = op["reaction"]
    crash_at = op["crash_at"]
    ff = op["file_fault"]
    events = []

    def hook(name):
        events.append(name)
        if crash_at == name:
            w.dead = True
            raise Dead()
    w.hook = hook

    class F:
        def __init__(s, f):
            s.f = f

        def __enter__(s):
            return s

        def __exit__(s, *a):
            s.f.close()
            return False

        def write(s, b):
            if w.dead:
                raise Dead()
            hook("file_write")
            if ff == "write":
                raise OSError(28, "No space left on device")
            r = s.f.write(b)
            s.f.flush()
            hook("file_written")
            return r

        def read(s, *a):
            return s.f.read(*a)

    def fopen(path, mode="r", *a, **k):
        if w.dead:
            raise Dead()
        if any(ch in mode for ch in "wxa+"):
            hook("file_open_w")
            if ff == "open":
                raise OSError(30, "Read-only file system")
            if ff == "dir-no-create" and not (os.path.exists(path) and
                                              os.path.samefile(path, pf)):
                raise PermissionError(13, "Permission denied")
        elif ff == "read":
            hook("file_open_r")
            raise PermissionError(13, "Permission denied")
        return F(real_open(path, mode, *a, **k))

    class DirLockedOs:
        """`os` as ledger.pin sees it when the directory of the PIN file is not writable."""

        def __getattr__(s, name):
            if name in ("replace", "rename", "renames", "link", "symlink", "unlink", "remove",
                        "mkdir", "makedirs"):
                def refuse(*a, **k):
                    raise PermissionError(13, "Permission denied")
                return refuse
            return getattr(os, name)
    lpin.open = fopen
    saved_os = getattr(lpin, "os", None)
    if ff == "dir-no-create" and saved_os is not None:
        lpin.os = DirLockedOs()
    mw.install(w)
    Platform.set(Platform.LEDGER if platform == "Ledger" else Platform.SGX)
    res = {"out": None, "pin_obj": None, "events": events}
    mark = len(w.log)
    try:
        if program:
            # the manager program itself, started as a user starts it
            from vlib import managers
            argv = ["-b", "127.0.0.1", "-p", "0", "-l", os.path.join(tmpdir(), "no-log.cfg"),
                    "-P", pf] + (["-X"] if op["force"] else []) + \
                (["--version-one"] if op.get("v1") else [])
            # the configured default: the device's PIN when there is no file to take it from,
            # something else when there is (the file is what counts then)
            env_pin = DEFAULT.decode() if read_file(pf) is None else "envp9999"
            r = managers.run_manager(platform, argv, {"PIN": env_pin}, w)
            res["out"] = "serve" if r["served"] else \
                ("crash" if r["end"] == "raised:Dead" else "stopped")
            raise _Done()
        try:
            pin = FileBasedPin(pf, DEFAULT, op["force"])
            res["pin_obj"] = pin
            res["pin_before"] = pin.get_pin()
            dongle = hd.HSM2Dongle(False) if platform == "Ledger" else HSM2DongleSGX("h", 1,
                                                                                      False)
            if op.get("v1"):
                from ledger.protocol_v1 import HSM1ProtocolLedger
                p = HSM1ProtocolLedger(pin, dongle)
            else:
                p = HSM2ProtocolLedger(pin, dongle)
            try:
                p.initialize_device()
                res["out"] = "serve"
            except HSM2ProtocolError:
                res["out"] = "error"
            except HSM2ProtocolInterrupt:
                res["out"] = "interrupt"
        except PinError:
            res["out"] = "pinerror"
        except Dead:
            res["out"] = "crash"
        except Exception:
            if not w.dead:
                raise
            res["out"] = "crash"      # whatever a dying process raises is irrelevant
    except _Done:
        pass
    finally:
        del lpin.open
        if saved_os is not None:
            lpin.os = saved_os
        Platform.set(Platform.LEDGER)
        w.hook = None
    if w.dead:
        res["out"] = "crash"
    res["log"] = w.log[mark:]
    return res


class _Done(Exception):
    pass


def run_case(c):
    w = mw.default_world()
    w.pin = DEFAULT
    w.retries = 3
    w.post_mode = SIGNER
    pf = pin_path(c.get("path_style", "plain"))
    if os.path.exists(pf):
        os.unlink(pf)
    if c["file0"] == "present":
        with real_open(pf, "wb") as f:
            f.write(DEFAULT)
    elif c["file0"] == "present-padded":
        # the PIN with white space around it, as an editor may leave it (the loader strips it)
        with real_open(pf, "wb") as f:
            f.write(b"\n " + DEFAULT + b" \r\n")
    elif c["file0"] == "invalid":
        with real_open(pf, "wb") as f:
            f.write(b"not a pin!")
    labels = ["platform:" + c["platform"], "file0:" + c["file0"],
              "path:" + c.get("path_style", "plain")]
    if any(op.get("v1") for op in c["starts"]):
        labels.append("version-one" + (":program" if c.get("program") else ""))
    if c.get("program"):
        labels.append("via-manager-program")
    attempted_change = False
    for n, op in enumerate(c["starts"]):
        file_before = read_file(pf)
        dev_before = w.pin
        res = run_start(w, pf, op, c["platform"], c.get("program", False))
        mw.check_sim(w)
        file_after = read_file(pf)
        dev_after = w.pin
        log = res["log"]
        where = "start %d %r (%s, file0 %s): outcome %s, events %s" % (
            n, op, c["platform"], c["file0"], res["out"], res["events"])
        new_pins = [e[1] for e in log if e[0] == "newpin_rx"]
        applied = [e[1] for e in log if e[0] == "newpin_applied"]
        adopted = dev_after != dev_before
        labels.append("out:" + str(res["out"]))
        if new_pins:
            attempted_change = True
            labels.append("change:" + op["reaction"])
        if c.get("program"):
            if res["out"] == "serve":
                labels.append("program:served")
            if new_pins:
                labels.append("program:change-attempted")
            if adopted and file_after == dev_after:
                labels.append("program:change-committed")
        # (c) every PIN the manager generates satisfies the device policy
        for pnew in new_pins:
            if not policy_ok(pnew):
                raise Violation("generated-pin-violates-policy", "%s: new PIN %r" % (where, pnew))
        if len(new_pins) > 1:
            raise Violation("several-pin-changes-in-one-start", where)
        # the root cause recorded as a known finding: the device has the new PIN, the file not,
        # because the process was interrupted (crash, file-system failure, lost acknowledgement)
        # between the device's acknowledgement and the write. Without such an interruption the
        # same end state is a different defect. Reported after the other clauses of this start.
        lost = adopted and (file_after is None or file_after != dev_after)
        # (a directory that takes no new entries interrupts nothing when the file is already
        # there: rewriting it needs no right over the directory)
        interrupted = op["crash_at"] is not None or \
            op["file_fault"] in ("open", "write") or \
            (op["file_fault"] == "dir-no-create" and file_before is None) or \
            op["reaction"] in ("ack-lost", "comm", "timeout")
        if lost and not interrupted:
            raise Violation("pin-lost-without-any-fault", "%s: device PIN is now %r, PIN file "
                            "holds %r" % (where, dev_after, file_after))
        # (a) the file changes only after an acknowledged change, and then holds exactly that PIN
        if file_after != file_before and not lost:
            if not adopted:
                raise Violation("file-changed-without-acknowledged-change",
                                "%s: file %r -> %r, device PIN unchanged %r" % (
                                    where, file_before, file_after, dev_after))
            if file_after != dev_after:
                raise Violation("file-not-exactly-new-pin", "%s: file %r, device %r" % (
                    where, file_after, dev_after))
        # (b) refused / failed / aborted change leaves file and PIN in use untouched
        if new_pins and not adopted:
            if file_after != file_before:
                raise Violation("failed-change-touched-file", where)
            pin = res["pin_obj"]
            if pin is not None and res["out"] != "crash" and \
                    pin.get_pin() != res["pin_before"]:
                raise Violation("failed-change-switched-pin-in-use", "%s: %r -> %r" % (
                    where, res["pin_before"], pin.get_pin()))
        # (d) after any change attempt the manager stops instead of carrying on (at start-up
        # any exception out of the bring-up stops it)
        if new_pins and res["out"] not in ("interrupt", "error", "crash", "stopped"):
            raise Violation("manager-carried-on-after-change-attempt", where)
        if new_pins and res["out"] in ("interrupt", "stopped"):
            after = False
            for e in log:
                if e[0] == "newpin_rx":
                    after = True
                elif after and e[0] == "apdu":
                    raise Violation("device-exchange-after-change-attempt",
                                    "%s: APDU %s" % (where, e[2].hex()))
        if lost:
            raise Violation(KNOWN_SIG, "%s: device PIN is now %r, PIN file holds %r, configured "
                            "default %r" % (where, dev_after, file_after, DEFAULT))
        # (e) the PIN the next start would use opens the device
        nxt = file_after.strip() if file_after is not None else DEFAULT
        if nxt != dev_after and not (c["file0"] == "invalid" and file_after == b"not a pin!"):
            raise Violation("pin-unrecoverable", "%s: next start would use %r, device PIN %r"
                            % (where, nxt, dev_after))
        # a change must have been attempted when needed and the device unlocked
        if res["out"] == "serve" and (op["force"] or file_before is None):
            raise Violation("served-without-required-pin-change", where)
    if os.path.exists(pf):
        os.unlink(pf)
    return Out(labels, attempted_change)


# ---------------------------------------------------------------- PIN change on reconnection

def reconnect_cases(tier, seed):
    out = []
    for plat, file0, reaction, ff in itertools.product(
            ["Ledger", "SGX"], ["absent", "present-forced"], REACTIONS,
            [None, "open", "write"]):
        out.append({"platform": plat, "file0": file0, "reaction": reaction, "file_fault": ff})
    return out


def run_reconnect(c):
    """The manager starts while the device is already in the signer (so a pending PIN change is
    not carried out), serves, loses the link, and finds the device in the bootloader when it
    reconnects: the PIN change happens inside a client request. All invariants still apply and
    the manager must stop."""
    import json as _json
    w = mw.default_world()
    w.pin = DEFAULT
    w.retries = 3
    w.post_mode = SIGNER
    w.mode = SIGNER
    w.unlocked = True
    pf = os.path.join(tmpdir(), "pin-reconnect.txt")
    if os.path.exists(pf):
        os.unlink(pf)
    if c["file0"] == "present-forced":
        with real_open(pf, "wb") as f:
            f.write(DEFAULT)
    w.newpin_behaviour = c["reaction"]
    ff = c["file_fault"]

    class F:
        def __init__(s, f):
            s.f = f

        def __enter__(s):
            return s

        def __exit__(s, *a):
            s.f.close()
            return False

        def write(s, b):
            if ff == "write":
                raise OSError(28, "No space left on device")
            return s.f.write(b)

        def read(s, *a):
            return s.f.read(*a)

    def fopen(path, mode="r", *a, **k):
        if "w" in mode and ff == "open":
            raise OSError(30, "Read-only file system")
        return F(real_open(path, mode, *a, **k))
    lpin.open = fopen
    mw.install(w)
    Platform.set(Platform.LEDGER if c["platform"] == "Ledger" else Platform.SGX)
    labels = ["reconnect", "platform:" + c["platform"]]
    try:
        pin = FileBasedPin(pf, DEFAULT, c["file0"] == "present-forced")
        dongle = hd.HSM2Dongle(False) if c["platform"] == "Ledger" else \
            HSM2DongleSGX("h", 1, False)
        p = HSM2ProtocolLedger(pin, dongle)
        p.initialize_device()                      # device in signer: serves, no PIN used
        h = mw.handler(p)
        file_before = read_file(pf)
        dev_before = w.pin
        w.faults[w.nex] = "read"
        out, exc = mw.serve_line(h, b'{"command":"blockchainState","version":5}')
        if exc is not None or mw.parse_reply(out) is None:
            # how a link failure is answered is C11's matter; this scenario needs it answered
            return Out(labels + ["reconnect-precondition-not-met"], False)
        w.mode = BOOT                              # the device was power-cycled meanwhile
        w.unlocked = False
        mark = len(w.log)
        out, exc = mw.serve_line(h, b'{"command":"blockchainState","version":5}')
    finally:
        del lpin.open
        Platform.set(Platform.LEDGER)
    mw.check_sim(w)
    log = w.log[mark:]
    new_pins = [e[1] for e in log if e[0] == "newpin_rx"]
    file_after = read_file(pf)
    dev_after = w.pin
    adopted = dev_after != dev_before
    where = "reconnection %r: reply %r, handler raised %s" % (c, out[:60], type(exc).__name__)
    if not new_pins:
        # no PIN change was attempted inside the request: nothing of this property applies
        return Out(labels + ["reconnect-no-change-attempt"], False)
    labels.append("reconnect-change")
    labels.append("change:" + c["reaction"])
    for pnew in new_pins:
        if not policy_ok(pnew):
            raise Violation("generated-pin-violates-policy", "%s: %r" % (where, pnew))
    lost = adopted and (file_after is None or file_after != dev_after)
    interrupted = c["file_fault"] in ("open", "write") or \
        c["reaction"] in ("ack-lost", "comm", "timeout")
    if lost and not interrupted:
        raise Violation("pin-lost-without-any-fault", "%s: device PIN %r, file %r" % (
            where, dev_after, file_after))
    if file_after != file_before and not lost and (not adopted or file_after != dev_after):
        raise Violation("file-changed-without-acknowledged-change", "%s: %r -> %r" % (
            where, file_before, file_after))
    # (d) after the change attempt the manager stops: the request handler asks for a shutdown
    from comm.server import RequestHandlerShutdown
    if not isinstance(exc, RequestHandlerShutdown):
        raise Violation("manager-carried-on-after-change-attempt",
                        "%s: the PIN change attempt happened inside a request and the manager "
                        "did not stop" % where)
    if lost:
        raise Violation(KNOWN_SIG, "%s: device PIN %r, file %r" % (where, dev_after, file_after))
    nxt = file_after.strip() if file_after is not None else DEFAULT
    if nxt != dev_after:
        raise Violation("pin-unrecoverable", "%s: next start would use %r, device has %r" % (
            where, nxt, dev_after))
    return Out(labels, True)


# ---------------------------------------------------------------- PIN generator under a
# harness-controlled random source (the policy must hold for EVERY outcome of the RNG)

@st.composite
def rng_streams(draw, tier):
    chars = string.ascii_letters + string.digits
    digits = string.digits
    blocks = draw(st.lists(st.one_of(
        st.text(alphabet=digits, min_size=8, max_size=8),
        st.text(alphabet=chars, min_size=8, max_size=8),
        st.text(alphabet=digits + "abXY", min_size=8, max_size=8)), min_size=1, max_size=6))
    return {"stream": "".join(blocks)}


class ScriptedRandom(_random.Random):
    """A random source that answers from a script of characters wherever the population it is
    asked to choose from is visible (choice / choices / sample), whatever the call style; any
    other use falls back on a generator seeded from the script."""

    def __init__(self, stream):
        super().__init__(0)
        self.stream = list(stream)
        self.pos = 0
        self.scripted = 0

    def seed(self, *a, **k):          # the code may re-seed: the script stays
        return None

    def _next(self, seq):
        seq = list(seq)
        if self.pos < len(self.stream):
            ch = self.stream[self.pos]
        else:
            ch = "aZ3kQ9xB"[(self.pos - len(self.stream)) % 8]    # guarantees termination
        self.pos += 1
        self.scripted += 1
        if ch in seq:
            return ch
        if isinstance(ch, str) and ch.encode() in seq:
            return ch.encode()
        if isinstance(ch, str) and len(ch) == 1 and ord(ch) in seq:
            return ord(ch)
        return seq[ord(ch) % len(seq)]     # a narrower population: some member of it

    def choice(self, seq):
        return self._next(seq)

    def choices(self, population, weights=None, *, cum_weights=None, k=1):
        return [self._next(population) for _ in range(k)]

    def sample(self, population, k, *, counts=None):
        pop = list(population)
        out = []
        for _ in range(k):
            x = self._next(pop)
            pop.remove(x)
            out.append(x)
        return out


class _ModuleLike:
    """Stands where the `random` (or `secrets`) module stands in ledger.pin."""

    def __init__(self, rnd, real):
        self._rnd, self._real = rnd, real

    def SystemRandom(self, *a):
        return self._rnd

    def Random(self, *a):
        return self._rnd

    def __getattr__(self, name):
        if hasattr(self._rnd, name):
            return getattr(self._rnd, name)
        return getattr(self._real, name)


def run_generator(c):
    rnd = ScriptedRandom(c["stream"])
    saved = {}
    for modname in ("random", "secrets"):
        if hasattr(lpin, modname):
            saved[modname] = getattr(lpin, modname)
            setattr(lpin, modname, _ModuleLike(rnd, saved[modname]))
    try:
        pins = [lpin.BasePin.generate_pin() for _ in range(2)]
    finally:
        for modname, real in saved.items():
            setattr(lpin, modname, real)
    for pin in pins:
        if type(pin) is not bytes or not policy_ok(pin):
            raise Violation("generated-pin-violates-policy", "random script %r produced PIN %r"
                            % (c["stream"][:rnd.pos], pin))
    first = c["stream"][:8].encode()
    labels = ["gen:scripted" if rnd.scripted else "gen:rng-not-scripted"]
    if rnd.scripted:
        labels.append("gen:first-block-valid" if policy_ok(first) else
                      "gen:first-block-rejected")
    return Out(labels, rnd.scripted > 0 and not policy_ok(first))


REQUIRED_LABELS = {t: ["reconnect", "reconnect-change", "path:plain",
                       "path:dotdot-through-symlink", "path:redundant-separators", "gen:first-block-rejected|gen:rng-not-scripted",
                       "gen:first-block-valid|gen:rng-not-scripted", "platform:Ledger", "platform:SGX", "via-manager-program", "version-one", "version-one:program", "program:served",
                       "program:change-attempted", "program:change-committed", "file0:present", "file0:absent",
                       "file0:invalid", "out:serve", "out:interrupt", "out:crash",
                       "out:pinerror", "change:accept", "change:refuse", "change:swerr",
                       "change:comm", "change:timeout", "known-finding-hit"]
                   for t in ("quick", "thorough")}


def stages(tier):
    return [EnumStage("single-start", single_starts, run_case,
                      exhaustive={"quick": True, "thorough": True},
                      budget_s={"quick": 180, "thorough": 120}),
            HypStage("histories", lambda t: cases(t), run_case, {"quick": 150, "thorough": 4000},
                     budget_s={"quick": 270, "thorough": 900}),
            EnumStage("reconnect", reconnect_cases, run_reconnect,
                      exhaustive={"quick": True, "thorough": True},
                      budget_s={"quick": 180, "thorough": 120}),
            HypStage("pin-generator", lambda t: rng_streams(t), run_generator,
                     {"quick": 200, "thorough": 5000}, budget_s={"quick": 90, "thorough": 300})]
