"""C17 - signer authorizations contain what the device will check."""
import contextlib
import io
import json
import os
import shutil
import sys
import tempfile
import types

from hypothesis import strategies as st

from vlib.core import Violation, Out, HarnessError
from vlib.runner import HypStage
from vlib import mw, refs, ihex, certs
from vlib.device import BOOT, SW

import ecdsa
import secp256k1 as ec
import signapp
import admin.authorize_signer as auths
from admin.signer_authorization import SignerAuthorization, SignerVersion
from comm.platform import Platform
from checks.c19 import run_main, verify_libsecp

ID = "C17"
LEVEL = "exploration"
RULE = ("Hypothesis-generated signer hashes (32 bytes, either hex case) x iterations {0, 1, "
        "65535, random; as int, decimal string, 0x string; -1, 65536, floats, bools, null, "
        "garbage} x 0..10 signatures by random secp256k1 keys (valid and malformed DER) x device "
        "thresholds (authorized after the k-th signature, never, status error); non-trivial = >= "
        "2 signatures or a boundary / invalid iteration; distinct by case fingerprint")
ASSUMPTIONS = [
    "text and digest are recomputed by the harness (Keccak-256 from pycryptodome)",
    "tool signatures (pure-Python ecdsa) are verified with libsecp256k1 after low-S normalisation",
    "iteration / hash spellings the docs do not decide (embedded whitespace, '+5', '1_0', "
    "non-ASCII digits) are not asserted",
]
REQUIRED_LABELS = {t: ["iteration:valid", "iteration:invalid", "hash:invalid", "sig:malformed",
                       "authorized", "never-authorized", "device-error", "sigs>=2",
                       "signapp:key", "signapp:manual", "signapp:eth", "iter:65535", "iter:0",
                       "duplicate-signature", "malformed-file", "via:program",
                       "signapp:eth-bad-signature-refused",
                       "signapp:other-iteration-on-existing-file|signapp:other-iteration-refused"]
                   for t in ("quick", "thorough")}
h32 = st.binary(min_size=32, max_size=32)
BAD_SIGS = ["", "zz", "30", "3006020101", "3006020101020101ff", "3106020101020101",
            "3006030101020101", None, 5, ["aa"]]


@st.composite
def iterations(draw):
    n = draw(st.one_of(st.sampled_from([0, 1, 255, 256, 65535]), st.integers(0, 65535)))
    k = draw(st.integers(0, 9))
    if k <= 3:
        return {"v": n, "ok": True, "n": n}
    if k == 4:
        return {"v": str(n), "ok": True, "n": n}
    if k == 5:
        return {"v": hex(n), "ok": True, "n": n}
    bad = draw(st.sampled_from([-1, 65536, 2 ** 32, 1.5, None, "abc", "",
                                "-1", "65536", "0x10000", [1], {"a": 1}, "0xzz",
                                1.0, True, False]))
    # integral floats and booleans are numbers 0..65535 to some readers and malformed to others
    undecided = type(bad) in (float, bool) and bad == int(bad)
    return {"v": bad, "ok": None if undecided else False, "n": None}


@st.composite
def cases(draw, tier):
    h = draw(h32)
    hs = h.hex()
    hk = draw(st.integers(0, 9))
    hash_ok = True
    if hk == 0:
        hs = hs.upper()
    elif hk == 1:
        hs = "".join(ch.upper() if i % 3 == 0 else ch for i, ch in enumerate(hs))
    elif hk == 2:
        hs = draw(st.sampled_from([hs[:-2], hs + "00", "", "zz" * 32, "0x" + hs, hs[:-1], None,
                                   5, h]))
        hash_ok = False
    nsig = draw(st.integers(0, 10))
    sigs = []
    for _ in range(nsig):
        k = draw(st.integers(0, 11))
        if k == 0:
            sigs.append({"bad": draw(st.sampled_from(BAD_SIGS))})
        elif k <= 2 and sigs:
            # the very same signature once more (an authorizer who signed twice)
            sigs.append({"dup": draw(st.integers(0, len(sigs) - 1))})
        else:
            sigs.append({"key": draw(st.integers(1, 2 ** 200))})
    return {"hash": hs, "hash_ok": hash_ok, "hash_bytes": h, "iteration": draw(iterations()),
            "sigs": sigs,
            "threshold": draw(st.one_of(st.integers(1, 11), st.sampled_from([1, 2, 3]))),
            "error_at": draw(st.one_of(st.none(), st.none(), st.integers(1, 10))),
            "signapp_keys": [draw(st.integers(1, 2 ** 255)) for _ in range(2)],
            "app": draw(st.binary(min_size=1, max_size=400)),
            "pin": "abcd1234",
            # authorize_signer through adm_ledger.py with a command line
            "program": draw(st.integers(0, 3)) == 0,
            # the Ethereum app answers signapp with a signature that does not verify
            "eth_bad": draw(st.integers(0, 3)) == 0}


_TMP = {}


def workdir():
    pid = os.getpid()
    if pid not in _TMP:
        _TMP[pid] = tempfile.mkdtemp(prefix="verif-c17-")
        import atexit
        atexit.register(shutil.rmtree, _TMP[pid], True)
    d = _TMP[pid]
    for f in os.listdir(d):
        os.unlink(os.path.join(d, f))
    return d


def expected_text(hash_lower, n):
    msg = "RSK_powHSM_signer_%s_iteration_%d" % (hash_lower, n)
    wrapped = ("\x19Ethereum Signed Message:\n%d%s" % (len(msg), msg)).encode("ascii")
    return msg, wrapped, refs.keccak256(wrapped)


def run_case(c):
    labels = []
    d = workdir()
    it = c["iteration"]
    # ---------- (1)/(3) construction, text, digest, refusal of malformed input
    sv = None
    try:
        sv = SignerVersion(c["hash"], it["v"])
        err = None
    except Exception as e:      # noqa - how a refusal is signalled is not prescribed
        err = e
    valid = c["hash_ok"] and it["ok"]
    labels.append("iteration:valid" if it["ok"] else "iteration:invalid")
    if not c["hash_ok"]:
        labels.append("hash:invalid")
    if it["ok"] is None and c["hash_ok"]:
        # an integral float / a boolean: refusing it is fine; taking it for the number it equals
        # is fine too - but then it IS that number everywhere (text, digest, file, APDU)
        labels.append("iteration:undecided")
        if sv is None:
            return Out(labels, False)
        it = dict(it, n=int(it["v"]))
        valid = True
    if valid and sv is None and c["hash"] != c["hash"].lower():
        labels.append("non-lowercase-hash-refused")     # the docs show lowercase only
        return Out(labels, False)
    if valid and sv is None:
        raise Violation("valid-signer-version-refused", "hash %r iteration %r: %s" % (
            c["hash"], it["v"], err))
    if not valid and sv is not None:
        raise Violation("malformed-signer-version-accepted", "hash %r iteration %r" % (
            c["hash"], it["v"]))
    if not valid:
        return Out(labels, True)
    n = it["n"]
    if n in (0, 65535):
        labels.append("iter:%d" % n)
    hlow = c["hash_bytes"].hex()
    msg, wrapped, digest = expected_text(hlow, n)
    if sv.msg != msg:
        raise Violation("authorization-text", "%r vs %r" % (sv.msg, msg))
    if sv.get_authorization_msg() != wrapped:
        raise Violation("authorization-wrapping", "%r vs %r" % (sv.get_authorization_msg(),
                                                               wrapped))
    if sv.get_authorization_digest() != digest:
        raise Violation("authorization-digest", "%s vs %s" % (
            sv.get_authorization_digest().hex(), digest.hex()))
    if sv.to_dict() != {"hash": hlow, "iteration": n}:
        raise Violation("signer-version-dict", repr(sv.to_dict()))
    # signatures: valid ones are accepted, malformed ones refused
    sig_hex = []
    good = []
    for s in c["sigs"]:
        if "bad" in s:
            labels.append("sig:malformed")
            at = len(good) // 2 if len(good) % 2 else len(good)
            try:
                SignerAuthorization(sv, good[:at] + [s["bad"]] + good[at:])
            except Violation:
                raise
            except Exception:      # noqa - refused
                continue
            raise Violation("malformed-signature-accepted", repr(s["bad"]))
        if "dup" in s:
            src = [x for x in c["sigs"][:c["sigs"].index(s)] if "bad" not in x]
            if good:
                good.append(good[s["dup"] % len(good)])
                labels.append("duplicate-signature")
            continue
        sk = certs.sk_from_int(s["key"])
        sg = certs.sign(sk, b"x")     # any valid DER signature is acceptable content
        sg = sk.sign_digest(digest, sigencode=ecdsa.util.sigencode_der)
        good.append(sg.hex())
    auth = SignerAuthorization(sv, good)
    # a signature refused by add_signature leaves the authorization as it was
    for s_ in c["sigs"]:
        if "bad" in s_:
            try:
                auth.add_signature(s_["bad"])
            except Exception:      # noqa - refused
                pass
            else:
                raise Violation("malformed-signature-accepted", "add_signature(%r)" % (
                    s_["bad"],))
            if auth.signatures != good:
                raise Violation("refused-signature-retained", "after add_signature(%r) was "
                                "refused the authorization lists %r" % (s_["bad"],
                                                                        auth.signatures[-2:]))
    p1 = os.path.join(d, "auth.json")
    auth.save_to_jsonfile(p1)
    again = SignerAuthorization.from_jsonfile(p1)
    if again.to_dict() != auth.to_dict() or again.to_dict() != {
            "version": 1, "signer": {"hash": hlow, "iteration": n}, "signatures": good}:
        raise Violation("save-load-changes-authorization", "%r vs %r" % (again.to_dict(),
                                                                       auth.to_dict()))
    if len(good) >= 2:
        labels.append("sigs>=2")
    # ---------- (2) signapp key / manual against an application image whose hash is `hash`
    # (the image hash is whatever the image is; the file-based flow uses its own hash)
    app_path = os.path.join(d, "app.hex")
    with open(app_path, "w") as f:
        f.write(ihex.write([(0xC0D00000, c["app"])], [32]))
    import hashlib
    app_hash = hashlib.sha256(c["app"]).hexdigest()
    _, _, app_digest = expected_text(app_hash, n)
    out_path = os.path.join(d, "signapp.json")
    want_sigs = 0
    for j, k in enumerate(c["signapp_keys"]):
        sk = certs.sk_from_int(k)
        code, out = run_main(signapp, ["signapp.py", "key", "-a", app_path, "-i", str(n), "-o",
                                       out_path, "-k", sk.to_string().hex()])
        if code != 0:
            raise Violation("signapp-key-failed", "exit %r: %s" % (code, out[-300:]))
        want_sigs += 1
        doc = json.load(open(out_path))
        if doc.get("signer") != {"hash": app_hash, "iteration": n} or \
                len(doc.get("signatures", [])) != want_sigs:
            raise Violation("signapp-file-content", json.dumps(doc)[:400])
        last = bytes.fromhex(doc["signatures"][-1])
        if not verify_libsecp(certs.pub_uncompressed(sk), app_digest, last):
            raise Violation("signapp-signature-does-not-verify", "signature %s under key %d" % (
                last.hex(), j))
        labels.append("signapp:key")
    # one more signature added to the EXISTING file, the operator passing another iteration on
    # the command line: whatever the tool makes of that, every signature kept in the file
    # verifies for the signer version the file states
    sk3 = certs.sk_from_int(c["signapp_keys"][0] + 3)
    other_i = (n + 1) % 65536
    code, out = run_main(signapp, ["signapp.py", "key", "-a", app_path, "-i",
                                   [str(other_i), hex(other_i)][n % 2], "-o", out_path, "-k",
                                   sk3.to_string().hex()])
    doc = json.load(open(out_path))
    if code == 0:
        fhash, fit = doc["signer"]["hash"], doc["signer"]["iteration"]
        if fhash != app_hash:
            raise Violation("signapp-file-content", json.dumps(doc)[:300])
        _, _, fdigest = expected_text(fhash, fit)
        pubs_ = [certs.pub_uncompressed(certs.sk_from_int(k)) for k in c["signapp_keys"]] + \
            [certs.pub_uncompressed(sk3)]
        for sg_ in doc["signatures"]:
            if not any(verify_libsecp(pb, fdigest, bytes.fromhex(sg_)) for pb in pubs_):
                raise Violation("signapp-signature-does-not-verify", "after a run with -i %d on "
                                "a file for iteration %d: signature %s verifies under none of "
                                "the signing keys for the file's signer version" % (
                                    other_i, fit, sg_[:24]))
        want_sigs = len(doc["signatures"])
        labels.append("signapp:other-iteration-on-existing-file")
    else:
        if len(doc.get("signatures", [])) != want_sigs:
            raise Violation("signapp-file-content", "a refused run changed the file")
        labels.append("signapp:other-iteration-refused")
    # signapp eth: the signature comes from a (simulated) Ledger Ethereum app, which signs the
    # personal-message digest of the text it is sent with the key of the path it is sent
    import admin.dongle_eth as deth
    import struct as _st
    eth_sk = certs.sk_from_int(c["signapp_keys"][0] + 7)
    eth_seen = {}

    class EthApp:
        opened = True

        def close(self):
            self.opened = False

        def exchange(self, apdu, timeout=None):
            apdu = bytes(apdu)
            cmd = apdu[1]
            npath = apdu[5]
            path = apdu[6:6 + 4 * npath]
            eth_seen.setdefault("paths", []).append(path)
            if cmd == 0x02:
                pub = certs.pub_uncompressed(eth_sk)
                return bytearray(bytes([len(pub)]) + pub + b"\x00")
            if cmd == 0x08:
                rest = apdu[6 + 4 * npath:]
                ln = _st.unpack(">I", rest[:4])[0]
                text = rest[4:4 + ln]
                eth_seen["text"] = text
                dg = refs.keccak256(b"\x19Ethereum Signed Message:\n" + str(len(text)).encode() +
                                    text)
                if c.get("eth_bad"):
                    # an app that signs something else (another text, another key's view)
                    dg = refs.keccak256(dg)
                sig = eth_sk.sign_digest(dg, sigencode=ecdsa.util.sigencode_string)
                return bytearray(b"\x1b" + sig)
            raise deth.CommException("Invalid status 6d00", 0x6D00)
    saved_gd = deth.getDongle
    deth.getDongle = lambda debug: EthApp()
    try:
        eth_out = os.path.join(d, "signapp-eth.json")
        code, out = run_main(signapp, ["signapp.py", "eth", "-a", app_path, "-i", str(n), "-o",
                                       eth_out, "-p", "m/44'/60'/0'/0/%d" % (n % 5)])
    finally:
        deth.getDongle = saved_gd
    if c.get("eth_bad"):
        # whatever the tool does with a signature that does not verify, it does not keep it
        if os.path.exists(eth_out):
            kept = json.load(open(eth_out)).get("signatures", [])
            if kept:
                raise Violation("signapp-eth-kept-bad-signature", "exit %r, file holds %r" % (
                    code, kept[:2]))
        if code == 0:
            raise Violation("signapp-eth-bad-signature-success", out[-300:])
        labels.append("signapp:eth-bad-signature-refused")
        code, out = 0, ""
        eth_seen.clear()
        c = dict(c, eth_bad=False)
        deth.getDongle = lambda debug: EthApp()
        try:
            code, out = run_main(signapp, ["signapp.py", "eth", "-a", app_path, "-i", str(n),
                                           "-o", eth_out, "-p", "m/44'/60'/0'/0/%d" % (n % 5)])
        finally:
            deth.getDongle = saved_gd
    if code != 0:
        raise Violation("signapp-eth-failed", "exit %r: %s" % (code, out[-300:]))
    doc = json.load(open(eth_out))
    want_path = b"".join(_st.pack(">I", x) for x in (44 + 2 ** 31, 60 + 2 ** 31, 2 ** 31, 0,
                                                      n % 5))
    if eth_seen.get("text") != expected_text(app_hash, n)[0].encode() or \
            any(pth != want_path for pth in eth_seen.get("paths", [])):
        raise Violation("signapp-eth-request", "Ethereum app was sent text %r on paths %r" % (
            eth_seen.get("text"), [x.hex() for x in eth_seen.get("paths", [])]))
    if doc.get("signer") != {"hash": app_hash, "iteration": n} or \
            len(doc.get("signatures", [])) != 1 or not verify_libsecp(
                certs.pub_uncompressed(eth_sk), app_digest, bytes.fromhex(doc["signatures"][0])):
        raise Violation("signapp-eth-signature", json.dumps(doc)[:300])
    labels.append("signapp:eth")
    if good:
        code, out = run_main(signapp, ["signapp.py", "manual", "-o", out_path, "-g", good[0]])
        if code != 0:
            raise Violation("signapp-manual-failed", out[-300:])
        doc = json.load(open(out_path))
        if doc["signatures"][-1] != good[0] or len(doc["signatures"]) != want_sigs + 1:
            raise Violation("signapp-manual-content", json.dumps(doc)[:300])
        labels.append("signapp:manual")
    code, out = run_main(signapp, ["signapp.py", "message", "-a", app_path, "-i", str(n)])
    printable = repr(expected_text(app_hash, n)[1].decode("ascii"))[1:-1]
    if code != 0 or printable not in out:
        raise Violation("signapp-message-output", "%r lacks %r" % (out[-300:], printable))
    # ---------- (4) the authorize command against the simulated UI
    w = mw.default_world()
    w.mode = BOOT
    w.unlocked = False
    w.pin = c["pin"].encode()
    seen = {"first": None, "sigs": [], "count": 0}
    thr = c["threshold"]
    err_at = c["error_at"]

    def h_auth(world, dd, a):
        if not world.unlocked:
            raise SW(0x6A01)
        op = dd[0]
        if op == 0x01:
            seen["first"] = bytes(dd[1:])
            return bytes([0x80, 0x51, 0x01])
        if op == 0x02:
            seen["count"] += 1
            seen["sigs"].append(bytes(dd[1:]))
            if err_at is not None and seen["count"] == err_at:
                raise SW(0x6A04)
            done = seen["count"] >= thr
            return bytes([0x80, 0x51, 0x02, 0x02 if done else 0x01])
        raise SW(0x6A01)
    w.extra_handlers[0x51] = h_auth
    mw.install(w)
    Platform.set(Platform.LEDGER)
    opts = types.SimpleNamespace(signer_authorization_file_path=p1, pin=c["pin"], any_pin=False,
                                 verbose=False, no_exec=False)
    buf = io.StringIO()
    exc = None
    fn = auths.do_authorize_signer
    if c.get("program"):
        # through adm_ledger.py with a command line
        from vlib.programs import as_program
        fn = as_program(fn, opts, True)
        labels.append("via:program")
    try:
        with contextlib.redirect_stdout(buf):
            fn(opts)
    except HarnessError:
        raise
    except Exception as e:   # noqa
        exc = e
    mw.check_sim(w)
    want_first = c["hash_bytes"] + n.to_bytes(2, "big")
    if seen["first"] != want_first:
        raise Violation("authorize-first-apdu", "device got %r, expected hash || BE16 iteration "
                        "%s" % (seen["first"] and seen["first"].hex(), want_first.hex()))
    nsigs = len(good)
    if err_at is not None and err_at <= min(nsigs, thr):
        exp_sent, exp_ok = err_at, False
        labels.append("device-error")
    elif thr <= nsigs:
        exp_sent, exp_ok = thr, True
        labels.append("authorized")
    else:
        exp_sent, exp_ok = nsigs, False
        labels.append("never-authorized")
    if [x.hex() for x in seen["sigs"]] != good[:exp_sent]:
        raise Violation("authorize-signature-order", "device got %r, file order is %r (expected "
                        "the first %d)" % ([x.hex()[:16] for x in seen["sigs"]],
                                           [x[:16] for x in good], exp_sent))
    if exp_ok and exc is not None:
        raise Violation("authorize-failed-although-device-authorized", "%s: %s" % (
            type(exc).__name__, str(exc)[:200]))
    if not exp_ok and exc is None:
        raise Violation("authorize-succeeded-without-device-authorization",
                        "threshold %d, %d signatures, error_at %r" % (thr, nsigs, err_at))
    # the same command again on a freshly locked device: same exchanges, same outcome
    w.unlocked = False
    w.mode = BOOT
    seen.update({"first": None, "sigs": [], "count": 0})
    exc2 = None
    try:
        with contextlib.redirect_stdout(io.StringIO()):
            auths.do_authorize_signer(opts)
    except Exception as e:   # noqa
        exc2 = e
    if (exc2 is None) != (exc is None) or seen["first"] != want_first or \
            [x.hex() for x in seen["sigs"]] != good[:exp_sent]:
        raise Violation("authorize-not-repeatable", "second run: exc %r, first APDU %r, %d "
                        "signatures (first run: exc %r, %d)" % (
                            exc2, seen["first"] and seen["first"].hex(), len(seen["sigs"]), exc,
                            exp_sent))
    # one loaded authorization handed to the device layer twice (a retry after an attempt that
    # broke off, as a caller holding the object makes it): the same exchanges both times, and
    # the authorization is still the one that was loaded
    from admin.signer_authorization import SignerAuthorization as _SA
    sa = _SA.from_jsonfile(p1)
    before = json.dumps(sa.to_dict(), sort_keys=True)
    dongle = mw.hd.HSM2Dongle(False)
    dongle.connect()
    try:
        for attempt in (1, 2):
            w.unlocked = True
            w.mode = BOOT
            seen.update({"first": None, "sigs": [], "count": 0})
            exc3 = None
            try:
                dongle.authorize_signer(sa)
            except Exception as e:   # noqa
                exc3 = e
            mw.check_sim(w)
            if seen["first"] != want_first or [x.hex() for x in seen["sigs"]] != good[:exp_sent]:
                raise Violation("authorize-object-reuse", "attempt %d with the same loaded "
                                "authorization: first APDU %r, signatures %r; file order %r "
                                "(expected the first %d); %r" % (
                                    attempt, seen["first"] and seen["first"].hex()[:20],
                                    [x.hex()[:16] for x in seen["sigs"]],
                                    [x[:16] for x in good], exp_sent, exc3))
            if json.dumps(sa.to_dict(), sort_keys=True) != before:
                raise Violation("authorization-changed-by-sending-it", "after attempt %d the "
                                "loaded authorization reads %s, it was %s" % (
                                    attempt, json.dumps(sa.to_dict())[:200], before[:200]))
    finally:
        dongle.disconnect()
    labels.append("authorize:same-object-twice")
    return Out(labels, len(good) >= 2 or n in (0, 65535))


# ---------------------------------------------------------------- malformed authorization files

def malformed_files(tier, seed):
    good = {"version": 1, "signer": {"hash": "aa" * 32, "iteration": 3},
            "signatures": ["3006020101020101"]}
    docs = []

    def add(name, doc, raw=None):
        docs.append({"name": name, "text": raw if raw is not None else json.dumps(doc)})
    add("not-json", None, "{")
    add("empty", None, "")
    add("top-list", [good])
    add("top-null", None)
    add("top-string", "x")
    for k in ("version", "signer", "signatures"):
        add("missing-" + k, {a: b for a, b in good.items() if a != k})
    for v in (0, 2, "1", None, 1.5):
        add("version-%r" % (v,), dict(good, version=v))
    for sg in (None, [], "x", {}, {"hash": "aa" * 32}, {"iteration": 3},
               {"hash": "aa" * 31, "iteration": 3}, {"hash": "zz" * 32, "iteration": 3},
               {"hash": "aa" * 32, "iteration": -1}, {"hash": "aa" * 32, "iteration": 65536},
               {"hash": "aa" * 32, "iteration": "x"}, {"hash": 5, "iteration": 3}):
        add("signer-%s" % json.dumps(sg)[:30], dict(good, signer=sg))
    for sigs in (None, "3006020101020101", {}, [None], [5], ["zz"], ["30"], [["aa"]],
                 ["3006020101020101", ""], ["", "3006020101020101"]):
        add("signatures-%s" % json.dumps(sigs)[:30], dict(good, signatures=sigs))
    return docs


def run_malformed_file(c):
    """A file that is not an authorization is refused when loaded, and the authorize command
    given such a file sends the device no authorization data."""
    d = workdir()
    path = os.path.join(d, "auth.json")
    with open(path, "w") as f:
        f.write(c["text"])
    try:
        loaded = SignerAuthorization.from_jsonfile(path)
    except Exception:     # noqa - refused
        loaded = None
    if loaded is not None:
        raise Violation("malformed-file-accepted", "%s: %s loads as %r" % (
            c["name"], c["text"][:200], loaded.to_dict()))
    w = mw.default_world()
    w.mode = BOOT
    w.unlocked = False
    w.pin = b"abcd1234"
    seen = []

    def h_auth(world, dd, a):
        seen.append(bytes(dd))
        return bytes([0x80, 0x51, dd[0], 0x02])
    w.extra_handlers[0x51] = h_auth
    mw.install(w)
    Platform.set(Platform.LEDGER)
    opts = types.SimpleNamespace(signer_authorization_file_path=path, pin="abcd1234",
                                 any_pin=False, verbose=False, no_exec=False)
    exc = None
    try:
        with contextlib.redirect_stdout(io.StringIO()):
            auths.do_authorize_signer(opts)
    except Exception as e:   # noqa
        exc = e
    mw.check_sim(w)
    if seen:
        raise Violation("authorization-data-sent-from-malformed-file", "%s: device got %r" % (
            c["name"], [x.hex() for x in seen][:3]))
    if exc is None:
        raise Violation("authorize-succeeded-with-malformed-file", c["name"])
    return Out(["malformed-file"], True)


def stages(tier):
    from vlib.runner import EnumStage
    return [EnumStage("malformed-files", malformed_files, run_malformed_file,
                      exhaustive={"quick": True, "thorough": True},
                      budget_s={"quick": 180, "thorough": 60}),
            HypStage("authorizations", lambda t: cases(t), run_case,
                     {"quick": 120, "thorough": 4000}, budget_s={"quick": 300, "thorough": 1200})]
