"""C18 - admin commands touch seed and PIN only under their preconditions."""
import contextlib
import io
import itertools
import json
import os
import shutil
import sys
import tempfile
import types

from vlib.core import Violation, Out, HarnessError
from vlib.runner import EnumStage
from vlib import mw, certs, attest
from vlib.device import BOOT, SIGNER, UIHB
from vlib.genuine import Genuine
from vlib.refs import ALL_PATHS, path_bin
from checks.c10 import policy_ok, ALNUM

import admin.dongle_admin as da
import admin.onboard as onboard
import admin.pubkeys as pubkeys
import admin.unlock as unlock
import admin.changepin as changepin
import admin.misc as misc
from comm.platform import Platform

for _m in (onboard, pubkeys, misc):
    _m.wait_for_reconnection = lambda: None

ID = "C18"
LEVEL = "exploration"
RULE = ("complete enumeration of (command in {onboard, unlock, changepin, pubkeys}) x device "
        "state (mode {bootloader, signer, ui-heartbeat, unknown, foreign byte} x onboarded {yes, "
        "no, error} x echo {ok, bad} x platform {Ledger, SGX}) x operator input (PIN valid / 7 "
        "chars / digits only / non-alphanumeric / 9 chars / trailing newline / CR / NUL / leading "
        "space / non-ASCII digit / each of the 66 non-alphanumeric ASCII bytes at the head, inside, at the "
        "tail / absent-then-typed; any-pin flag; "
        "answer yes / no / n / other-then-yes / other-then-no; no-unlock flag; new-PIN classes), "
        "the functions called directly and - for devices that echo, in bootloader or signer "
        "mode - through adm_ledger.py / adm_sgx.py with a command line; "
        "non-trivial = combination in which exactly one precondition fails, or all hold; "
        "distinct = distinct combinations")
ASSUMPTIONS = [
    "reference predicate per command transcribes the property statement",
    "the device is the genuine-device simulation of vlib/genuine.py; operator input is fed "
    "through sys.stdin and admin.misc.getpass",
]
MODES = [BOOT, SIGNER, UIHB, "unknown", 7]
ONB = [True, False, "error"]
PLATS = ["Ledger", "SGX"]
PINS = {"valid": "abcd1234", "short": "abc1234", "digits": "12345678", "nonalnum": "abcd123!",
        "long": "abcd12345", "newline-tail": "abcdefg\n", "cr-tail": "abcdef1\r",
        "nul-inside": "abc\x00efgh", "space-head": " bcdefgh", "unicode-digit": "abcdefg١",
        # 8 bytes once encoded, made of characters that are letters / numerics to Unicode
        "latin1-letter": "abc123ü", "superscripts": "pas1²³", "digits-and-accent": "123456ê",
        "typed-valid": None, "typed-bad-then-valid": None}
BASE_PINS = list(PINS)
# every ASCII byte that is not a letter or a digit, at the head, inside and at the tail of an
# otherwise compliant PIN (the policy is a statement about each of the 8 characters)
for _b in range(128):
    if _b in ALNUM:
        continue
    for _pos in (0, 4, 7):
        _t = list("abcd1234")
        _t[_pos] = chr(_b)
        PINS["byte-%02x@%d" % (_b, _pos)] = "".join(_t)
BYTE_PINS = [k for k in PINS if k.startswith("byte-")]


class OperatorGone(BaseException):
    """Standard input is at its end and stays there: nobody is going to answer."""


class Stdin(io.StringIO):
    """Operator input; once exhausted it reads as end-of-file (as a closed pipe or Ctrl-D does)
    and, should the program keep asking, the case is ended after 50 further reads."""

    def __init__(self, text):
        super().__init__(text)
        self.eofs = 0

    def readline(self, *a):
        line = super().readline(*a)
        if line == "":
            self.eofs += 1
            if self.eofs > 50:
                raise OperatorGone()
        return line


ANSWERS = {"yes": "yes\n", "Yes": "Yes\n", "no": "no\n", "n": "n\n",
           # input ends before anything decisive was said
           "eof": "", "other-then-eof": "maybe\n", "empty-lines-then-eof": "\n\n",
           "other-then-yes": "maybe\nYES\n", "other-then-no": "x\nNo\n",
           "y-then-no": "y\nno\n", "empty-then-no": "\nn\n"}
DEVICE_PIN = b"devp1234"
_SEEDS_SEEN = set()
TYPED_OK = "devp1234"       # what the operator types when asked: the device's PIN
TYPED_NEW = "newp5678"      # ... and the new PIN they have in mind
SEEDISH = {0x44: "SEED", 0x07: "WIPE", 0xA0: "SGX_ONBOARD"}
PINISH = {0x41: "SEND_PIN", 0xFE: "UNLOCK", 0xA3: "SGX_UNLOCK", 0x08: "CHANGE_PIN",
          0xA5: "SGX_CHANGE_PASSWORD"}


def grid(tier, seed):
    out = []
    for plat, mode, onb, echo in itertools.product(PLATS, MODES, ONB, [True, False]):
        st = {"plat": plat, "mode": mode, "onb": onb, "echo": echo}
        for pin, anyp, ans in itertools.product(BASE_PINS, [False, True], ANSWERS):
            out.append(dict(st, cmd="onboard", pin=pin, any_pin=anyp, answer=ans))
        for pin, anyp in itertools.product(BASE_PINS, [False, True]):
            out.append(dict(st, cmd="unlock", pin=pin, any_pin=anyp, correct=True))
            if pin == "valid":
                out.append(dict(st, cmd="unlock", pin=pin, any_pin=anyp, correct=False))
            if pin == "typed-valid" and not anyp:
                out.append(dict(st, cmd="unlock", pin=pin, any_pin=anyp, correct=True,
                                swap=True))
        for newpin, anyp, nou in itertools.product(BASE_PINS, [False, True], [False, True]):
            out.append(dict(st, cmd="changepin", pin="valid", new_pin=newpin, any_pin=anyp,
                            no_unlock=nou))
            if newpin in ("valid", "typed-valid", "typed-bad-then-valid", "digits"):
                # the current PIN is typed at the unlock prompt instead of given as an option
                out.append(dict(st, cmd="changepin", pin="typed-valid", new_pin=newpin,
                                any_pin=anyp, no_unlock=nou))
        for nou in (False, True):
            out.append(dict(st, cmd="pubkeys", pin="valid", any_pin=False, no_unlock=nou))
            out.append(dict(st, cmd="pubkeys", pin="valid", any_pin=False, no_unlock=nou,
                            wallet="zero-x"))
    # one character outside the policy, every such ASCII byte, on a device that would
    # otherwise be onboarded / have its PIN changed
    front = []
    for plat, pin in itertools.product(PLATS, BYTE_PINS):
        front.append(dict(plat=plat, mode=BOOT, onb=False, echo=True, cmd="onboard", pin=pin,
                          any_pin=False, answer="yes"))
        front.append(dict(plat=plat, mode=BOOT, onb=True, echo=True, cmd="changepin",
                          pin="valid", new_pin=pin, any_pin=False, no_unlock=False))
    # the same through the programs an operator starts (what can be written on a command line)
    prog = []
    for c in front + out:
        if c["echo"] and c["onb"] != "error" and c["mode"] in (BOOT, SIGNER) and \
                "\x00" not in (PINS.get(c.get("pin")) or "") and \
                "\x00" not in (PINS.get(c.get("new_pin", "valid")) or ""):
            prog.append(dict(c, via="program"))
    # (the small special families first: should the stage's time allowance ever run out on
    #  an overloaded machine, it is the bulk of the grid that is cut short)
    return front + prog + out


_TMP = {}


def workdir():
    pid = os.getpid()
    if pid not in _TMP:
        _TMP[pid] = tempfile.mkdtemp(prefix="verif-c18-")
        import atexit
        atexit.register(shutil.rmtree, _TMP[pid], True)
    d = _TMP[pid]
    for f in os.listdir(d):
        os.unlink(os.path.join(d, f))
    return d


SPEC = {"root": 1, "device": 2, "att": 3, "wallet": [[p, i + 10] for i, p in
                                                      enumerate(ALL_PATHS)],
        "ui_hash": b"\x01" * 32, "signer_hash": b"\x02" * 32, "iteration": 1, "best": bytes(32),
        "tx": bytes(8), "ts": 0, "legacy": False, "version": "5.4", "ui_version": "5.4",
        "platform": "ledger", "alter": None}


def answer_is_yes(ans):
    """True / False, or None when the operator's lines include a bare 'y' before anything
    decisive (whether that is 'an explicit yes' is not for the harness to say)."""
    for line in ANSWERS[ans].lower().split("\n"):
        if line in ("n", "no"):
            return False
        if line == "yes":
            return True
        if line == "y":
            return None
    return False


class Options:
    """Command-line options as the parsers hand them over: the ones a case sets, and the
    parsers' default (None) for every other."""

    def __init__(self, **kw):
        self.__dict__.update(kw)

    def __getattr__(self, name):
        if name.startswith("__"):
            raise AttributeError(name)
        return None


def run_case(c):
    plat = c["plat"]
    w = mw.default_world()
    w.mode = c["mode"] if c["mode"] != "unknown" else BOOT
    w.mode_error = c["mode"] == "unknown"
    w.onboarded = c["onb"]
    w.echo_ok = c["echo"]
    if not c["echo"]:
        # the ways an echo can be wrong, spread over the grid (all five of them for every
        # command x platform: the remaining dimensions decide which)
        import zlib
        k = zlib.crc32(repr(sorted((k_, repr(v_)) for k_, v_ in c.items()
                                   if k_ not in ("plat", "cmd"))).encode()) % 5
        w.echo_ok = [False, "hdr-cmd", "hdr-cla", "short", "long"][k]
    w.unlocked = False
    w.pin = DEVICE_PIN
    w.post_mode = SIGNER
    if c["mode"] in (SIGNER, UIHB):
        w.unlocked = True
    spec = dict(SPEC, platform=plat.lower())
    if c.get("wallet") == "zero-x":
        # two of the six keys have a coordinate that begins with a zero byte
        from vlib import attest as _at
        wl = [list(x) for x in SPEC["wallet"]]
        wl[1][1] = _at.zero_x_index(wl[1][0], "x")
        wl[4][1] = _at.zero_x_index(wl[4][0], "y")
        spec["wallet"] = wl
    g = Genuine(w, spec)
    mw.install(w)
    da.getDongle = lambda debug: mw.get_dongle(w)()
    import ledgerblue.comm
    ledgerblue.comm.getDongle = da.getDongle
    Platform.set(Platform.LEDGER if plat == "Ledger" else Platform.SGX,
                 {} if plat == "Ledger" else {"sgx_host": "h", "sgx_port": 1})
    d = workdir()
    cmd = c["cmd"]
    pin_class = c["pin"]
    typed = []
    # how often the operator mistypes before getting it right: 1..5 times, spread over the grid
    n_bad = 1 + (MODES.index(c["mode"]) + PLATS.index(plat) + ONB.index(c["onb"]) +
                 (1 if c["any_pin"] else 0) + len(cmd)) % 5
    bad_entries = ["bad!", "1234567", "abc!1234", "12345678", "abcdefgh!"][:n_bad]
    if pin_class == "typed-valid":
        queue = [TYPED_OK]
    elif pin_class == "typed-bad-then-valid":
        queue = bad_entries + [TYPED_OK]
    else:
        queue = [TYPED_OK]
    if cmd == "changepin":
        # what the operator types, in order: the current PIN when the unlock step asks for it,
        # then candidates for the new PIN until one is taken
        queue = []
        if pin_class == "typed-valid" and not c.get("no_unlock"):
            queue.append(TYPED_OK)
        if c["new_pin"] == "typed-valid":
            queue.append(TYPED_NEW)
        elif c["new_pin"] == "typed-bad-then-valid":
            queue += bad_entries + [TYPED_NEW]
        queue = queue or [TYPED_OK]
    new_queue = list(queue)

    def fake_getpass(prompt=""):
        if c.get("swap") and not typed:
            # while the prompt waits, the device on the bus is exchanged for a factory-fresh
            # one: every handle opened so far is dead
            w.dead_conns = set(range(0, w.conn + 1))
            w.onboarded = False
            w.unlocked = False
            w.mode = BOOT
        # once the operator has settled on a PIN, that is what they type from then on
        if cmd == "onboard" and g.pin_set is not None:
            # the device has been given a PIN: from now on that is the PIN the operator types
            return g.pin_set.decode("utf-8", "replace")
        v = new_queue.pop(0) if new_queue else (typed[-1] if typed else TYPED_OK)
        typed.append(v)
        return v
    saved_getpass = misc.getpass
    misc.getpass = fake_getpass
    urandom_out = []
    real_urandom = os.urandom

    def rec_urandom(n):
        b = real_urandom(n)
        urandom_out.append(b)
        return b
    os.urandom = rec_urandom
    opt_pin = PINS[pin_class]
    if cmd in ("unlock", "changepin", "pubkeys") and pin_class == "valid":
        opt_pin = DEVICE_PIN.decode() if c.get("correct", True) else "wrong123"
    opts = Options(pin=opt_pin, any_pin=c["any_pin"], verbose=False, no_exec=False,
                   no_unlock=c.get("no_unlock", False),
                   output_file_path=os.path.join(d, "out.txt"), new_pin=None)
    if cmd == "changepin":
        np = c["new_pin"]
        opts.new_pin = PINS[np]
        if np in ("typed-valid", "typed-bad-then-valid"):
            # the unlock step uses options.pin, so everything typed is the new PIN
            pass
    fn = {"onboard": onboard.do_onboard, "unlock": unlock.do_unlock,
          "changepin": changepin.do_changepin, "pubkeys": pubkeys.do_get_pubkeys}[cmd]
    if c.get("via") == "program":
        # the command as an operator runs it: adm_ledger.py / adm_sgx.py with a command line
        from vlib.programs import as_program
        fn = as_program(fn, opts, plat == "Ledger")
    out = io.StringIO()
    exc = None
    saved_stdin = sys.stdin
    ans_text = ANSWERS.get(c.get("answer", "yes"), "yes\n")
    sys.stdin = Stdin(ans_text if "eof" in c.get("answer", "") else ans_text + "\n\n")
    saved_unlock = onboard.do_unlock

    def unlock_after_replug(options, **kw):
        w.mode = BOOT
        w.unlocked = False
        return saved_unlock(options, **kw)
    onboard.do_unlock = unlock_after_replug
    try:
        with contextlib.redirect_stdout(out):
            fn(opts)
    except HarnessError:
        raise
    except Exception as e:   # noqa
        exc = e
    except OperatorGone as e:
        exc = e
    finally:
        sys.stdin = saved_stdin
        misc.getpass = saved_getpass
        os.urandom = real_urandom
        onboard.do_unlock = saved_unlock
        Platform.set(Platform.LEDGER)
    mw.check_sim(w)
    desc = {k: c[k] for k in sorted(c)}
    apdus = [e for e in w.log if e[0] == "apdu" and e[2][0] == 0x80]
    seedish = [e for e in apdus if e[2][1] in SEEDISH]
    pinish = [e for e in apdus if e[2][1] in PINISH]
    labels = ["cmd:" + cmd, "plat:" + plat]
    if c["mode"] == BOOT and w.echo_ok is not True:
        labels.append("echo:%s:%s:%s" % (w.echo_ok, cmd, plat))
    if "typed-bad-then-valid" in (pin_class, c.get("new_pin")) and len(typed) > n_bad:
        labels.append("mistyped:%d" % n_bad)
    if c.get("via") == "program":
        labels.append("via:program")

    # ---- what the operator's PIN is for this run
    if PINS[pin_class] is not None:
        op_pin = opt_pin
    else:
        op_pin = None      # typed
    # ---- onboarding
    pin_given_ok = PINS[pin_class] is None or policy_ok(PINS[pin_class].encode())
    # a PIN outside the policy given together with the any-PIN flag: the statement lets it
    # through, the command's help restricts the flag to PIN changes - not asserted either way
    pin_undecided = not pin_given_ok and c["any_pin"]
    yes = answer_is_yes(c["answer"]) if cmd == "onboard" else None
    onboard_base = (cmd == "onboard" and c["mode"] == BOOT and c["echo"] and c["onb"] is False)
    onboard_allowed = bool(onboard_base and yes is True and pin_given_ok)
    onboard_maybe = bool(onboard_base and yes is not False and (pin_given_ok or pin_undecided)
                         and not onboard_allowed)
    if seedish and not (onboard_allowed or onboard_maybe):
        raise Violation("seed-or-wipe-sent-without-preconditions", "%r: %s" % (
            desc, [SEEDISH[e[2][1]] for e in seedish][:3]))
    if cmd == "onboard" and pinish and not (onboard_allowed or onboard_maybe):
        raise Violation("onboard-pin-sent-without-preconditions", "%r: %s" % (
            desc, [PINISH[e[2][1]] for e in pinish][:3]))
    # ---- every PIN-carrying APDU goes to a device in bootloader mode that is onboarded
    #      (or is being onboarded under the onboarding preconditions)
    for e in pinish:
        mode, onb, unl = e[4]
        if e[2][1] in (0x08, 0xA5) or (cmd == "changepin" and e[2][1] == 0x41):
            continue      # PIN change: the statement constrains the PIN, not the device mode
        if mode != BOOT or w.mode_error:
            raise Violation("pin-sent-outside-bootloader", "%r: %s in mode %r" % (
                desc, PINISH[e[2][1]], mode))
        if onb is not True and not (onboard_allowed or onboard_maybe):
            raise Violation("pin-sent-to-device-not-onboarded", "%r: %s" % (
                desc, PINISH[e[2][1]]))
    # ---- PIN policy of onboarding and PIN change
    if cmd == "onboard" and g.pin_set is not None and not c["any_pin"] and \
            not policy_ok(g.pin_set):
        raise Violation("onboard-pin-violates-policy", "%r: %r" % (desc, g.pin_set))
    newpins = [e[1] for e in w.log if e[0] == "newpin_rx"]
    for np_ in newpins:
        if cmd != "changepin":
            raise Violation("pin-change-by-other-command", repr(desc))
        if not c["any_pin"] and not policy_ok(np_):
            raise Violation("changepin-pin-violates-policy", "%r: %r" % (desc, np_))
    # ---- carried out when the preconditions hold
    nt = False
    if cmd == "onboard" and onboard_maybe and not seedish:
        labels.append("onboard:undecided-refused")
    elif cmd == "onboard":
        if onboard_allowed or onboard_maybe:
            labels.append("onboard:undecided-done" if onboard_maybe else "onboard:decided")
            nt = True
            want_pin = (PINS[pin_class] or (typed[-1] if typed else None))
            if exc is not None:
                raise Violation("onboard-not-carried-out", "%r: %s: %s" % (
                    desc, type(exc).__name__, str(exc)[:200]))
            if w.onboarded is not True or g.pin_set != want_pin.encode():
                raise Violation("onboard-wrong-pin", "%r: device PIN %r, operator's %r" % (
                    desc, g.pin_set, want_pin))
            if g.seed_received is None or len(g.seed_received) != 32:
                raise Violation("onboard-seed-not-32-bytes", "%r: seed %r" % (desc,
                                                                              g.seed_received))
            # fresh: never the same seed twice (all onboardings of this worker process), and not
            # a degenerate value; where it comes from os.urandom that is recorded as a label
            if g.seed_received in _SEEDS_SEEN or len(set(g.seed_received)) <= 2:
                raise Violation("onboard-seed-not-fresh-random", "%r: seed %s was used before "
                                "or is degenerate" % (desc, g.seed_received.hex()))
            _SEEDS_SEEN.add(g.seed_received)
            labels.append("seed:from-os.urandom" if g.seed_received in urandom_out
                          else "seed:other-source")
            labels.append("onboard:done")
        else:
            # how the command ends when it does nothing is not prescribed
            labels.append("onboard:raised" if exc is not None else "onboard:returned")
            fails = sum([c["mode"] != BOOT, not c["echo"], c["onb"] is not False,
                         yes is False, not (pin_given_ok or pin_undecided)])
            nt = fails == 1
            labels.append("onboard:refused")
    elif cmd == "unlock" and c.get("swap"):
        # only the invariants over what was sent apply: the device changed under the command
        labels.append("unlock:device-swapped-at-prompt")
        nt = c["mode"] == BOOT and c["onb"] is True and c["echo"]
    elif cmd == "unlock":
        pre = c["mode"] == BOOT and c["onb"] is True
        final_pin = opt_pin if PINS[pin_class] is not None else (typed[-1] if typed else None)
        pin_ok = final_pin is not None and all(ch in ALNUM for ch in final_pin.encode())
        right_pin = final_pin is not None and final_pin.encode() == DEVICE_PIN
        if pre and pin_ok and not c["echo"]:
            # the statement asks for an echo check of onboarding only
            labels.append("unlock:bad-echo-" + ("refused" if exc is not None else "done"))
            if exc is None and not w.unlocked:
                raise Violation("unlock-reported-success-but-locked", repr(desc))
        elif pre and pin_ok:
            nt = True
            if not right_pin:
                if exc is None and not w.unlocked:
                    raise Violation("unlock-reported-success-but-locked", repr(desc))
                labels.append("unlock:wrong-pin")
            else:
                if exc is not None or not w.unlocked:
                    raise Violation("unlock-not-carried-out", "%r: %r" % (desc, exc))
                labels.append("unlock:done")
                if PINS[pin_class] is None:
                    labels.append("unlock:done-with-typed-pin")
        else:
            labels.append("unlock:refused")
            labels.append("unlock:raised" if exc is not None else "unlock:returned")
            nt = sum([c["mode"] != BOOT, c["onb"] is not True]) == 1
    elif cmd == "changepin":
        np_class = c["new_pin"]
        given = PINS[np_class]
        if given is not None:
            valid_new = policy_ok(given.encode())
            if not valid_new and c["any_pin"]:
                # any PIN was explicitly allowed: alphanumeric ones are accepted as the help
                # says; whether others are is not prescribed
                valid_new = True if all(ch in ALNUM for ch in given.encode()) else None
        else:
            valid_new = True
        pre = c["mode"] == BOOT and c["onb"] is True and c["echo"] and not c["no_unlock"]
        if pre and valid_new is None:
            labels.append("changepin:undecided-" + ("sent" if newpins else "refused"))
        elif pre and valid_new:
            nt = True
            want = given if given is not None else (typed[-1] if typed else None)
            if exc is not None or w.pin != want.encode():
                raise Violation("changepin-not-carried-out", "%r: exc %r, device PIN %r, wanted "
                                "%r" % (desc, exc, w.pin, want))
            labels.append("changepin:done")
        else:
            if valid_new is False and newpins:
                raise Violation("changepin-sent-invalid-pin", repr(desc))
            labels.append("changepin:refused" if exc is not None else "changepin:other")
            nt = not valid_new and pre
    else:
        pre_signer = c["mode"] == SIGNER and c["no_unlock"]
        pre_boot = c["mode"] == BOOT and c["onb"] is True and c["echo"] and not c["no_unlock"] \
            and plat == "Ledger"
        if exc is None:
            txt = open(os.path.join(d, "out.txt")).read()
            js = json.load(open(os.path.join(d, "out.json")))
            want_js = {p: certs.pub_uncompressed(sk).hex() for p, sk in g.wallet.items()}
            if js != want_js:
                raise Violation("pubkeys-json", "%r vs %r" % (js, want_js))
            for p, sk in g.wallet.items():
                if certs.pub_compressed(sk).hex() not in txt or p not in txt:
                    raise Violation("pubkeys-text", "path %s missing or wrong key" % p)
            labels.append("pubkeys:written")
            nt = True
        else:
            labels.append("pubkeys:refused")
        if (pre_signer or pre_boot) and exc is not None:
            raise Violation("pubkeys-not-carried-out", "%r: %s" % (desc, str(exc)[:200]))
    return Out(labels, nt)


REQUIRED_LABELS = {t: ["echo:long:onboard:SGX", "echo:long:onboard:Ledger", "echo:long:unlock:SGX", "echo:short:onboard:SGX", "mistyped:1", "mistyped:3", "mistyped:5", "onboard:done", "onboard:refused", "unlock:done", "unlock:refused",
                       "unlock:wrong-pin", "changepin:done", "changepin:refused",
                       "pubkeys:written", "pubkeys:refused", "plat:Ledger", "plat:SGX",
                       "unlock:done-with-typed-pin", "onboard:decided",
                       "unlock:device-swapped-at-prompt", "via:program"]
                   for t in ("quick", "thorough")}


def stages(tier):
    return [EnumStage("grid", grid, run_case, exhaustive={"quick": True, "thorough": True},
                      budget_s={"quick": 450, "thorough": 600})]
