"""C01 - signing relays to the device exactly what the client asked to have signed."""
import copy
import struct

from hypothesis import strategies as st

from vlib.core import Violation, Out
from vlib.runner import HypStage
from vlib import mw, refs
from vlib.device import Policy
from vlib.strategies import txs, chunk_policy, rlp_receipt, byte_string_1_33, U32_EDGES

ID = "C01"
LEVEL = "exploration"
RULE = ("histories of 1..3 sign requests on one manager and device, with up to two other commands (queries, advancing, other sign requests, refused requests) served in between; each request: Hypothesis-generated sign requests (6 key paths, v5/v1, tx ASTs with every push "
        "encoding, legacy/segwit, receipts, proofs up to 255x255) x device chunk policies and "
        "deviations; non-trivial = authorized request whose BTC payload spans >= 2 chunks, or "
        "any device deviation / malformed signature; distinct by fingerprint of the whole case")
ASSUMPTIONS = [
    "simulated signer device reassembles parts from wire framing only (DESIGN.md section 3)",
    "python-bitcoinlib stand-in in /verif/shims (validated against upstream recorded vectors)",
    "expected unsigned transaction computed on the generated AST by the harness's own serializer",
]
REQUIRED_LABELS = {
    "quick": ["auth:legacy", "auth:segwit", "unauth", "v1", "dev:early", "dev:late", "dev:op",
              "sig:bad", "multi-chunk-btc", "policy:all-1", "success", "history", "bip144",
              "related-to-previous", "hex:spaced", "hex:upper", "interlude"],
    "thorough": ["auth:legacy", "auth:segwit", "unauth", "v1", "dev:early", "dev:late",
                 "dev:op", "sig:bad", "multi-chunk-btc", "policy:all-1", "success", "history",
                 "bip144",
                 "proof:255-nodes", "sig:0x31", "sig:trailing"],
}

BAD_SIG_KINDS = ["first-byte", "r-tag", "s-tag", "truncated", "total-too-big", "empty"]


@st.composite
def signature(draw):
    if draw(st.integers(0, 7)) == 0:
        return {"kind": "bad", "bad": draw(st.sampled_from(BAD_SIG_KINDS)),
                "r": draw(byte_string_1_33()), "s": draw(byte_string_1_33())}
    return {"kind": "ok", "r": draw(byte_string_1_33()), "s": draw(byte_string_1_33()),
            "first": draw(st.sampled_from([0x30, 0x30, 0x30, 0x31])),
            "trailing": draw(st.one_of(st.just(b""), st.just(b""), st.binary(max_size=6)))}


def sig_bytes(sg):
    r, s = sg["r"], sg["s"]
    if sg["kind"] == "ok":
        return refs.der_sig(r, s, sg["first"], sg["trailing"])
    good = refs.der_sig(r, s)
    k = sg["bad"]
    if k == "first-byte":
        return bytes([0x32]) + good[1:]
    if k == "r-tag":
        return good[:2] + b"\x03" + good[3:]
    if k == "s-tag":
        i = 4 + len(r)
        return good[:i] + b"\x03" + good[i + 1:]
    if k == "truncated":
        return good[:-1]
    if k == "total-too-big":
        return bytes([0x30, len(good)]) + good[2:]
    return b""


@st.composite
def cases(draw, tier):
    """1..3 sign requests against ONE manager and ONE device (state carried between requests
    must not leak into what the device ends up holding)."""
    n = draw(st.sampled_from([1, 1, 1, 2, 2, 3]))
    first = draw(one_sign(tier))
    seq = [first]
    for _ in range(n - 1):
        nxt = draw(one_sign(tier))
        prev = seq[-1]
        if "tx" in prev and draw(st.booleans()):
            # the next input of the same transaction / the same request with one thing changed
            fresh = nxt
            nxt = copy.deepcopy(prev)
            nxt["policy"], nxt["sig"], nxt["dev"] = fresh["policy"], fresh["sig"], None
            what = draw(st.sampled_from(["input", "ws", "ov", "mode", "receipt", "proof",
                                         "path", "nothing"]))
            if what == "input":
                nxt["input"] = draw(st.integers(0, len(nxt["tx"][1])))
            elif what in ("ws", "ov", "mode"):
                nxt["mode"] = "legacy" if what == "mode" and prev["mode"] == "segwit" else "segwit"
                nxt["ws"] = draw(st.binary(min_size=1, max_size=300))
                nxt["ov"] = draw(st.integers(1, 2 ** 64 - 1)) if what != "ws" else \
                    prev.get("ov", 1)
            elif what == "receipt":
                nxt["receipt"] = fresh.get("receipt", nxt["receipt"])
            elif what == "proof":
                nxt["proof"] = fresh.get("proof", nxt["proof"])
            elif what == "path":
                nxt["path"] = [x for x in refs.AUTH_PATHS if x != prev["path"]][0]
            nxt["related"] = what
        # other commands served by the same manager between two sign requests
        nxt["interlude"] = draw(st.lists(st.sampled_from(mw.INTERLUDES), max_size=2))
        nxt["v1"] = first["v1"] and "tx" not in nxt
        if nxt["v1"] and nxt["path"] not in refs.UNAUTH_PATHS:
            nxt["v1"] = False
        seq.append(nxt)
    if any(c["v1"] for c in seq):
        seq = [c for c in seq if "tx" not in c and c["path"] in refs.UNAUTH_PATHS] or [first]
        for c in seq:
            c["v1"] = seq[0]["v1"]
    return {"seq": seq}


@st.composite
def one_sign(draw, tier):
    thorough = tier == "thorough"
    v1 = draw(st.integers(0, 9)) == 0
    if v1:
        path = draw(st.sampled_from(refs.UNAUTH_PATHS))
    else:
        path = draw(st.sampled_from(refs.ALL_PATHS))
    c = {"v1": v1, "path": path, "policy": draw(chunk_policy()), "sig": draw(signature()),
         "dev": None,
         "hexstyle": draw(st.sampled_from(["plain", "plain", "plain", "upper", "spaced"]))}
    authorized = path in refs.AUTH_PATHS
    if authorized:
        tx = draw(txs(max_in=20 if thorough else 8))
        c["tx"] = tx
        n_in = len(tx[1])
        c["input"] = draw(st.one_of(st.sampled_from([0, n_in - 1, n_in] + U32_EDGES),
                                    st.integers(0, 2 ** 32 - 1)))
        c["mode"] = draw(st.sampled_from(["legacy", "segwit"]))
        if c["mode"] == "segwit":
            maxws = 10000 if thorough else 520
            c["ws"] = draw(st.one_of(st.binary(min_size=1, max_size=80),
                                     st.binary(min_size=1, max_size=maxws),
                                     # around the widths of the length prefix
                                     st.sampled_from([75, 76, 252, 253, 254, 255, 256]).flatmap(
                                         lambda n: st.binary(min_size=n, max_size=n))))
            c["ov"] = draw(st.one_of(st.sampled_from([1, 2 ** 63, 2 ** 64 - 1]),
                                     st.integers(1, 2 ** 64 - 1)))
        c["receipt"] = draw(rlp_receipt(2000))
        big = draw(st.integers(0, 40 if not thorough else 15)) == 0
        if big:
            nn = draw(st.sampled_from([255, 254, 200]))
            seed = draw(st.binary(min_size=255, max_size=255))
            ln = draw(st.sampled_from([255, 1, 128]))
            c["proof"] = [bytes([(i + 1) & 0xff]) + seed[1:ln] for i in range(nn)]
        else:
            c["proof"] = draw(st.lists(st.one_of(st.binary(min_size=1, max_size=40),
                                                 st.binary(min_size=1, max_size=255)),
                                       min_size=1, max_size=12 if not thorough else 40))
    else:
        c["hash"] = draw(st.binary(min_size=32, max_size=32))
    d = draw(st.integers(0, 9))
    if d <= 2:
        if authorized and d <= 1:
            part = draw(st.sampled_from(["btc", "receipt", "merkle"]))
            if d == 0:
                # stops after n bytes, or (negative) when at most -n bytes are still to come
                c["dev"] = {"kind": "early", "part": part,
                            "n": draw(st.one_of(st.integers(0, 60), st.integers(-8, -1)))}
            else:
                c["dev"] = {"kind": "late", "part": part, "n": draw(st.integers(1, 3))}
        else:
            c["dev"] = {"kind": "op", "op": draw(st.sampled_from(
                [0x02, 0x04, 0x08, 0x01, 0x80, 0x82, 0x00, 0xFF]))}
    return c


def hextext(b, style, k=0):
    """Hex as a client may write it: lower case, upper case, or with blanks between some bytes
    (a spelling `bytes.fromhex` reads and the manager currently lets through)."""
    h = b.hex()
    if style == "upper":
        return h.upper()
    if style == "spaced" and len(b) >= 2:
        step = 1 + k % 5
        return " ".join(h[i:i + 2 * step] for i in range(0, len(h), 2 * step))
    return h


def build_request(c):
    st_ = c.get("hexstyle", "plain")
    req = {"command": "sign", "version": 1 if c["v1"] else 5, "keyId": c["path"]}
    if "tx" in c:
        m = {"tx": hextext(refs.tx_bytes(c["tx"]), st_, 3), "input": c["input"],
             "sighashComputationMode": c["mode"]}
        if c["mode"] == "segwit":
            m["witnessScript"] = hextext(c["ws"], st_, 1)
            m["outpointValue"] = c["ov"]
        req["message"] = m
        # blanks in every other node only: a slip may concern one element of a list
        req["auth"] = {"receipt": hextext(c["receipt"], st_, 2),
                       "receipt_merkle_proof": [hextext(n, st_ if i % 2 else "plain", i)
                                                for i, n in enumerate(c["proof"])]}
    elif c["v1"]:
        req["message"] = hextext(c["hash"], st_)
    else:
        req["message"] = {"hash": hextext(c["hash"], st_)}
    return req


def expected_parts(c):
    exp = {"path": refs.path_bin(c["path"])}
    if "tx" in c:
        exp["input_index"] = c["input"]
        ed = b""
        if c["mode"] == "segwit":
            ed = refs.varint(len(c["ws"])) + c["ws"] + struct.pack("<Q", c["ov"])
        exp["ed"] = ed
        exp["receipt"] = c["receipt"]
        exp["merkle"] = bytes([len(c["proof"])]) + b"".join(
            bytes([len(n)]) + n for n in c["proof"])
    else:
        exp["hash"] = c["hash"]
    return exp


def check_btc(c, held_btc, ed):
    if len(held_btc) < 7:
        raise Violation("btc-payload-header", "payload %s" % held_btc.hex())
    plen = struct.unpack("<I", held_btc[:4])[0]
    mode = held_btc[4]
    edl = struct.unpack("<H", held_btc[5:7])[0]
    if mode != (0 if c["mode"] == "legacy" else 1):
        raise Violation("btc-sighash-mode", "mode byte %d for %s" % (mode, c["mode"]))
    if edl != len(ed) or held_btc[plen:] != ed:
        raise Violation("btc-extradata", "device holds extradata %s (declared %d), expected %s"
                        % (held_btc[plen:].hex()[:200], edl, ed.hex()[:200]))
    utx = held_btc[7:plen]
    try:
        v, ins, outs, lt, wit = refs.parse_tx_any(utx)
    except ValueError as e:
        raise Violation("btc-tx-undecodable", "device holds tx %s: %s" % (utx.hex()[:300], e))
    tv, tins, touts, tlt = c["tx"][:4]
    twit = [[bytes(i) for i in st_] for st_ in c["tx"][4]] if len(c["tx"]) > 4 else None
    if wit != twit:
        raise Violation("btc-tx-witness", "client's transaction carries witness stacks %r, the "
                        "device holds %r" % (twit and [[i.hex() for i in s_] for s_ in twit][:3],
                                             wit and [[i.hex() for i in s_] for s_ in wit][:3]))
    if v != tv or lt != tlt:
        raise Violation("btc-tx-version-locktime", "got %r/%r expected %r/%r" % (v, lt, tv, tlt))
    if [(o[0], bytes(o[1])) for o in outs] != [(o[0], o[1]) for o in touts]:
        raise Violation("btc-tx-outputs", "outputs differ")
    if len(ins) != len(tins):
        raise Violation("btc-tx-input-count", "%d vs %d" % (len(ins), len(tins)))
    for i, ((h, n, s, q), (th, tn, tops, tq)) in enumerate(zip(ins, tins)):
        if (h, n, q) != (th, tn, tq):
            raise Violation("btc-tx-outpoint-seq", "input %d" % i)
        allowed = {b"\x00" * (len(tops) - 1) + e for e in refs.op_canonical_forms(tops[-1])}
        if s not in allowed:
            raise Violation("btc-tx-script-not-blanked",
                            "input %d script %s, allowed %s" % (
                                i, s.hex()[:200], sorted(a.hex()[:200] for a in allowed)))


def run_case(h):
    seq = h["seq"] if "seq" in h else [h]
    w = mw.default_world()
    p = mw.stack(w, v1=seq[0]["v1"])
    labels = []
    nt = False
    if len(seq) >= 2:
        labels.append("history")
    for c in seq:
        if c.get("interlude") and c is not seq[0]:
            saved = (w.sign_dev, w.sign_answer_op)
            w.sign_dev, w.sign_answer_op = {}, None
            labels.extend(mw.interlude(p, w, c["interlude"], seq[0]["v1"]))
            w.sign_dev, w.sign_answer_op = saved
            if labels[-1] == "manager-stopped":
                break
            labels.append("interlude")
        out = run_one(c, w, p)
        labels.extend(out.labels)
        nt = nt or out.nontrivial
    return Out(labels, nt or len(seq) >= 2)


def run_one(c, w, p):
    w.policy = Policy(c["policy"])
    w.sign_dev = {}
    w.sign_answer_op = None
    n_completed = len(w.completed)
    n_chunks = len(w.sent_chunks)
    w.sig_der = sig_bytes(c["sig"])
    dev = c["dev"]
    if dev:
        if dev["kind"] in ("early", "late"):
            w.sign_dev["%s:%s" % (dev["kind"], dev["part"])] = dev["n"]
        else:
            w.sign_answer_op = dev["op"]
    mark = len(w.log)
    req = build_request(c)
    rep = mw.request(p, req)
    mw.check_sim(w)
    if not isinstance(rep, dict) or type(rep.get("errorcode")) is not int:
        raise Violation("reply-shape", repr(rep)[:300])
    code = rep["errorcode"]
    exp = expected_parts(c)
    labels = ["v1" if c["v1"] else "v5", "hex:" + c.get("hexstyle", "plain")]
    if c.get("hexstyle") == "spaced" and code != 0 and len(w.completed) == n_completed and \
            not w.apdus(mark):
        # a manager may refuse this spelling outright (the docs speak of hex strings)
        return Out(labels + ["spaced-hex-refused"], False)
    if c.get("related"):
        labels.append("related-to-previous")
    authorized = "tx" in c
    labels.append("auth:" + c["mode"] if authorized else "unauth")
    if authorized and len(c["tx"]) > 4:
        labels.append("bip144")
    if c["policy"] == [1]:
        labels.append("policy:all-1")
    if c["policy"] == [255]:
        labels.append("policy:all-255")

    # --- what the device ends up holding, and whether everything was consumed
    completed = w.completed[n_completed:]
    early_hit = any(k.startswith("early:") for h in completed for k in h) or \
        (w.sign_st is not None and any(k.startswith("early:") for k in w.sign_st.held))
    dev_success = len(completed) == 1 and (w.sign_answer_op is None or w.sign_answer_op == 0x81)
    # the device's signature: well-formed DER (must be relayed), not a signature at all (r or s
    # missing: nothing to relay), or an encoding slip that leaves r and s intact (wrong
    # outer tag / length, wrong integer tag, bytes after the signature) - there the statement
    # does not say whether the reply is a success, only what a success carries
    sg = c["sig"]
    if sg["kind"] == "ok":
        sig_class = "lenient" if sg["trailing"] else "ok"
    else:
        sig_class = "bad" if sg["bad"] in ("truncated", "empty") else "lenient"
    sig_ok = sig_class == "ok"
    should_succeed = dev_success and not early_hit and sig_ok

    # chunk discipline: never more than requested (the device would have refused), and the
    # concatenation per part is a prefix of the part
    per_part = {}
    sent_chunks = w.sent_chunks[n_chunks:]
    for (name, requested, data) in sent_chunks:
        if len(data) > requested:
            raise Violation("chunk-longer-than-requested", "%s %d > %d" % (name, len(data),
                                                                          requested))
        per_part[name] = per_part.get(name, b"") + data

    nontrivial = False
    if dev:
        labels.append("dev:" + dev["kind"])
        nontrivial = True
    if sg["kind"] != "ok":
        labels.append("sig:bad")
        nontrivial = True
    else:
        if c["sig"]["first"] == 0x31:
            labels.append("sig:0x31")
        if c["sig"]["trailing"]:
            labels.append("sig:trailing")
    if authorized and sum(1 for x in sent_chunks if x[0] == "btc") >= 2:
        labels.append("multi-chunk-btc")
        nontrivial = True
    if authorized and len(c["proof"]) >= 200:
        labels.append("proof:255-nodes" if len(c["proof"]) == 255 else "proof:big")

    want_sig = {"r": c["sig"]["r"].hex(), "s": c["sig"]["s"].hex()}
    if should_succeed or (sig_class == "lenient" and dev_success and not early_hit
                          and code == 0):
        if code != 0:
            raise Violation("success-expected", "device consumed everything and reported "
                            "success but reply is %r" % (rep,))
        if rep.get("signature") != want_sig:
            raise Violation("signature-mismatch", "reply %r expected %r" % (rep, want_sig))
        labels.append("success" if should_succeed else "success:lenient-der")
    else:
        if code == 0 or "signature" in rep:
            raise Violation("success-without-full-consumption",
                            "reply %r although dev_success=%s early=%s sig_ok=%s" % (
                                rep, dev_success, early_hit, sig_ok))
        labels.append("refused:%d" % code)

    # --- content of what the device holds (whenever a session completed without early stop)
    if len(completed) > 1:
        raise Violation("more-than-one-session", "%d sessions" % len(completed))
    if len(completed) == 1 and not early_hit:
        held = completed[0]
        if held["path"] != exp["path"]:
            raise Violation("path-bytes", "%s vs %s" % (held["path"].hex(), exp["path"].hex()))
        if authorized:
            if held["input_index"] != exp["input_index"]:
                raise Violation("input-index", "%r vs %r" % (held["input_index"],
                                                             exp["input_index"]))
            check_btc(c, held["btc"], exp["ed"])
            if held["receipt"] != exp["receipt"]:
                raise Violation("receipt-bytes", "%s vs %s" % (held["receipt"].hex()[:200],
                                                               exp["receipt"].hex()[:200]))
            if held["merkle"] != exp["merkle"]:
                raise Violation("merkle-proof-bytes", "%s vs %s" % (
                    held["merkle"].hex()[:300], exp["merkle"].hex()[:300]))
            for name in ("btc", "receipt", "merkle"):
                if per_part.get(name, b"") != held[name]:
                    raise Violation("chunks-not-contiguous", "part %s re-sent or overlapped"
                                    % name)
        else:
            if held.get("hash") != exp["hash"]:
                raise Violation("hash-bytes", "%r vs %r" % (held.get("hash"), exp["hash"]))
            if sent_chunks:
                raise Violation("unexpected-chunks", "unauthorized signing sent chunks")
    elif not dev and sig_ok:
        raise Violation("no-session-completed", "no deviation but the device completed %d "
                        "sessions; reply %r" % (len(completed), rep))
    return Out(labels, nontrivial)


def stages(tier):
    return [HypStage("sign", lambda t: cases(t), run_case,
                     {"quick": 250, "thorough": 6000},
                     budget_s={"quick": 300, "thorough": 900})]
