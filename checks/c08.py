"""C08 - verify commands vouch only for the operator's keys and a well-formed message."""
import contextlib
import hashlib
import io
import json
import os
import shutil
import tempfile
import types

from hypothesis import strategies as st

from vlib.core import Violation, Out, HarnessError
from vlib.runner import HypStage
from vlib import env, certs, attest
from vlib.strategies import textlike_head32
from vlib.certs import pub_uncompressed, pub_compressed
from vlib.refs import ALL_PATHS

env.prepare()
import admin.verify_ledger_attestation as vla                        # noqa: E402
import admin.verify_sgx_attestation as vsa                           # noqa: E402


ID = "C08"
LEVEL = "exploration"
RULE = ("Hypothesis-generated (attestation file, public-keys file, root of trust) triples for the "
        "Ledger and SGX verify commands: genuine ones over random keys (1..8 paths), UD value, "
        "hashes, iteration, best block, last tx, timestamp, legacy and current signer messages; "
        "variants re-signed by the harness so that only one semantic datum differs (key replaced "
        "/ added / removed, path renamed, file reordered, attested hash over compressed or "
        "unsorted keys, message truncated / extended, foreign header, missing target, UI key "
        "mismatch, wrong or non-self-signed root, an input that cannot be used at all: keys "
        "file not an object / with a non-key / not JSON / empty / missing, certificate file "
        "not JSON / missing, root of trust garbage / missing / not a point); non-trivial = a variant, or a genuine triple "
        "with >= 3 keys; distinct by case fingerprint")
ASSUMPTIONS = [
    "certificates are built and signed by the harness (vlib/certs.py, vlib/attest.py); the "
    "expected keys hash is computed by the harness from the public-keys file it wrote",
    "UI-message tails beyond the documented fields are not asserted",
]
EXTRA_PATHS = ["m/44'/2'/0'/0/0", "m/44'/0'/1'/0/0", "m/0/0/0/0/0", "m/44'/137'/2'/0/0"]
VARIANTS = ["none", "none", "reorder-file", "key-replaced", "key-added", "key-removed",
            "path-renamed", "hash-of-compressed", "hash-unsorted", "msg-truncated",
            "msg-extended", "foreign-header", "missing-target", "ui-key-mismatch", "wrong-root",
            "root-not-self-signed", "hash-flipped", "foreign-platform-id", "bundled-root",
            "one-target-signature-broken", "target-without-app-hash",
            "attestation-message-reshaped", "unusable-input", "unusable-input", "unusable-input",
            "ui-msg-extended", "ui-msg-truncated"]
# one of the three inputs cannot be used at all: nothing can be vouched for
UNUSABLE = ["pubkeys-not-object", "pubkeys-bad-key", "pubkeys-key-not-on-curve",
            "pubkeys-not-json", "pubkeys-empty", "pubkeys-missing", "cert-not-json",
            "cert-missing", "root-garbage", "root-missing-or-not-a-point"]
REQUIRED_LABELS = {t: ["plat:ledger", "plat:sgx", "accepted", "refused", "legacy", "current", "via:program", "ui-msg-cut-before-the-end-of-the-key"] +
                   ["variant:" + v for v in sorted(set(VARIANTS))] +
                   ["unusable:" + k for k in UNUSABLE]
                   for t in ("quick", "thorough")}
h32 = st.binary(min_size=32, max_size=32)


@st.composite
def cases(draw, tier):
    plat = draw(st.sampled_from(["ledger", "sgx"]))
    others = draw(st.lists(st.sampled_from(ALL_PATHS[1:] + EXTRA_PATHS), max_size=7,
                           unique=True))
    paths = [attest.UI_PATH] + others
    keys = [[p, draw(st.one_of(st.integers(0, 2 ** 64), st.integers(0, 2 ** 64),
                               st.sampled_from(["zero-x", "zero-y"])))] for p in paths]
    c = {"plat": plat, "keys": keys,
         "compressed_in_file": [draw(st.booleans()) for _ in keys],
         "file_order": draw(st.permutations(list(range(len(keys))))),
         "ud": draw(st.one_of(h32, h32, textlike_head32())), "best": draw(h32), "tx": draw(st.binary(min_size=8, max_size=8)),
         "ts": draw(st.one_of(st.sampled_from([0, 1, 2 ** 64 - 1]), st.integers(0, 2 ** 64 - 1))),
         "ui_hash": draw(h32), "signer_hash": draw(h32),
         "iteration": draw(st.one_of(st.sampled_from([0, 1, 65535]), st.integers(0, 65535))),
         "version": "5." + str(draw(st.integers(0, 9))),
         "ui_version": draw(st.sampled_from(["2.1", "5.4", "4.0", "3.9"])),
         "legacy": draw(st.booleans()) if plat == "ledger" else False,
         "legacy_version": draw(st.sampled_from(["2.0", "5.3", "4.1"])),
         "platform3": b"led" if plat == "ledger" else b"sgx",
         "foreign_platform3": draw(st.sampled_from([b"led", b"sgx", b"x86", b"abc"])),
         "ui_ud": draw(st.one_of(h32, h32, textlike_head32())),
         "roots": [draw(st.integers(0, 2 ** 64)) for _ in range(4)],
         "auth": draw(st.binary(min_size=1, max_size=60)),
         "variant": draw(st.sampled_from(VARIANTS)),
         "vi": draw(st.integers(0, 1000)), "vkey": draw(st.integers(0, 2 ** 64)),
         "vbytes": draw(st.binary(min_size=1, max_size=8)),
         "vpath": draw(st.sampled_from(EXTRA_PATHS + ["m/99'/0'/0'/0/0", "zzz"])),
         "vhdr": draw(st.integers(0, 5)), "vtarget": draw(st.integers(0, 1)),
         # through adm_ledger.py / adm_sgx.py with a command line instead of the function
         "program": draw(st.integers(0, 3)) == 0,
         "ukind": draw(st.sampled_from(UNUSABLE))}
    return c


_TMP = {}


def tmp(name):
    pid = os.getpid()
    if pid not in _TMP:
        _TMP[pid] = tempfile.mkdtemp(prefix="verif-c08-")
        import atexit
        atexit.register(shutil.rmtree, _TMP[pid], True)
    return os.path.join(_TMP[pid], name)


def run_case(c):
    plat, var = c["plat"], c["variant"]
    labels = ["plat:" + plat, "variant:" + var]
    # keys with a coordinate that begins with a zero byte, where the case asks for one
    c = dict(c, keys=[[p_, attest.zero_x_index(p_, k_[-1]) if isinstance(k_, str) else k_]
                      for p_, k_ in c["keys"]])
    w = attest.wallet(c["keys"])
    pubs = {p: pub_uncompressed(sk) for p, sk in w.items()}       # the operator's keys
    file_keys = dict(pubs)                                        # what the keys file will hold
    order = [c["keys"][i][0] for i in c["file_order"]]
    attested_keys = dict(pubs)                                    # what the device attests to
    genuine = True
    ui_key = pub_compressed(w[attest.UI_PATH])
    vi = c["vi"]
    paths = [k[0] for k in c["keys"]]
    if var == "key-replaced":
        p = paths[vi % len(paths)]
        other = attest.wallet([["replacement-of:" + p, c["vkey"]]])["replacement-of:" + p]
        file_keys[p] = pub_uncompressed(other)
        genuine = False
    elif var == "key-added":
        newp = next((x for x in EXTRA_PATHS + ["m/1/2/3/4/5"] if x not in file_keys))
        file_keys[newp] = pub_uncompressed(attest.wallet([[newp, c["vkey"]]])[newp])
        order.append(newp)
        genuine = False
    elif var == "key-removed":
        p = paths[vi % len(paths)]
        del file_keys[p]
        order.remove(p)
        genuine = False
    elif var == "path-renamed":
        p = paths[vi % len(paths)]
        newp = c["vpath"]
        if newp in file_keys:
            labels[-1] += "-na"
        else:
            file_keys[newp] = file_keys.pop(p)
            order[order.index(p)] = newp
            genuine = (attest.pubkeys_hash(file_keys) == attest.pubkeys_hash(pubs) and
                       (attest.UI_PATH in file_keys or plat == "sgx"))
            labels.append("renamed-still-genuine" if genuine else "renamed-breaks")
            if genuine and not newp.startswith("m/"):
                genuine = None      # a name that is not a BIP32 path: may be refused as such
    pkhash = attest.pubkeys_hash(attested_keys)
    if var == "hash-of-compressed":
        h = hashlib.sha256()
        for p in sorted(w):
            h.update(pub_compressed(w[p]))
        pkhash = h.digest()
        genuine = False
    elif var == "hash-unsorted":
        h = hashlib.sha256()
        unsorted_order = list(reversed(sorted(w)))
        for p in unsorted_order:
            h.update(pubs[p])
        pkhash = h.digest()
        genuine = len(w) == 1
    elif var == "hash-flipped":
        b = bytearray(pkhash)
        b[vi % 32] ^= 1 << (vi % 8)
        pkhash = bytes(b)
        genuine = False
    if var == "ui-key-mismatch" and plat == "ledger":
        ui_key = pub_compressed(attest.wallet([["x", c["vkey"]]])["x"])
        genuine = False
    elif var == "ui-key-mismatch":
        labels[-1] += "-na"
    # --- the powHSM message
    if c["legacy"]:
        msg = attest.legacy_signer_message(c["legacy_version"], pkhash)
        labels.append("legacy")
    else:
        platform3 = c["platform3"]
        if var == "foreign-platform-id":
            # the docs give each platform its own id; whether verification insists is not stated
            platform3 = c.get("foreign_platform3", b"abc")
            if platform3 != c["platform3"] and genuine:
                genuine = None
        msg = attest.powhsm_message(c["version"], platform3, c["ud"], pkhash, c["best"],
                                    c["tx"], c["ts"])
        labels.append("current")
    if var == "msg-truncated":
        msg = msg[:-(1 + vi % 8)]
        genuine = False
    elif var == "msg-extended":
        msg = msg + c["vbytes"]
        genuine = False
    ui_msg = attest.ui_message(c["ui_version"], c["ui_ud"], ui_key, c["signer_hash"],
                               c["iteration"])
    if var == "ui-msg-extended":
        # bytes after the last documented field of the UI message: whether that is an error
        # the statement does not say (it fixes the length of the powHSM message only); what is
        # printed, if anything, comes from the documented offsets
        if plat == "ledger":
            ui_msg += c["vbytes"]
            if genuine:
                genuine = None
        else:
            labels[-1] += "-na"
    if var == "ui-msg-truncated":
        # the UI message cut short (validly signed as it is): without the whole of the key
        # field there is no UI-attested key to equal the operator's; cut further on, the
        # statement does not say
        if plat == "ledger":
            full = len(ui_msg)
            hdr = full - (32 + 33 + 32 + 2)
            # (cuts beyond the key leave shortened values at the documented offsets: what is
            # to be printed then the statement does not say - not generated)
            cut = [hdr, hdr + 32, hdr + 32 + 1 + vi % 32, hdr + 32 + 12][
                (c["vhdr"] + 2 * c["vtarget"]) % 4]
            ui_msg = ui_msg[:cut]
            genuine = False
            labels.append("ui-msg-cut-before-the-end-of-the-key")
        else:
            labels[-1] += "-na"
    if var == "foreign-header":
        k = c["vhdr"]
        if plat == "ledger" and k == 0:
            ui_msg = b"HSM:UX:" + ui_msg[7:]
        elif plat == "ledger" and k == 1:
            ui_msg = b"HSM:UI:6.0" + ui_msg[10:]
        elif c["legacy"]:
            msg = (b"HSM:SIGNEX:", b"XSM:SIGNER:", b"HSM:SIGNER:6")[k % 3] + msg[11 + (k % 3 == 2):]
        else:
            msg = (b"POWHSM:4.1::", b"POWHSX:5.1::", b"powhsm:5.1::", b"POWHSM:5.1:;")[k % 4] + \
                msg[12:]
        genuine = False
    # --- certificate
    if plat == "ledger":
        dev = attest.LedgerDevice(c["roots"][0], c["roots"][1], c["roots"][2])
        cert = dev.certificate(ui_msg, c["ui_hash"], msg, c["signer_hash"])
        doc = cert.to_dict()
        if var == "missing-target":
            doc["targets"] = [["ui"], ["signer"]][c["vtarget"]]
            genuine = False
        root_arg = dev.root_pub.hex()
        if var == "wrong-root":
            root_arg = attest.LedgerDevice(c["roots"][0] + 1, 0, 0).root_pub.hex()
            genuine = False
        if var in ("root-not-self-signed", "bundled-root"):
            labels[-1] += "-na"
        if var == "attestation-message-reshaped":
            # the attestation element's message still ENDS with the attestation key, but is
            # not 'one byte + key' any more: what the format says is the key, is none
            from vlib.certs import sign as _sign
            el = next(e for e in doc["elements"] if e["name"] == "attestation")
            m = bytes.fromhex(el["message"])
            m = m[:1] + c["vbytes"][:1 + vi % 3] + m[1:]
            el["message"] = m.hex()
            el["signature"] = _sign(dev.device_sk, m).hex()
            genuine = False
        if var == "target-without-app-hash":
            # one of the two targets carries no application hash (tweak) and is signed by the
            # bare attestation key: its chain verifies, but it attests to no installed
            # application - there is no 'UI / signer hash' to report
            nm = ("ui", "signer")[c["vtarget"]]
            el = next(e for e in doc["elements"] if e["name"] == nm)
            el.pop("tweak", None)
            from vlib.certs import sign as _sign
            el["signature"] = _sign(dev.att_sk, bytes.fromhex(el["message"])).hex()
            genuine = False
        if var == "one-target-signature-broken":
            # one of the two attested messages carries a signature that does not verify, the
            # other target is in perfect order
            el = next(e for e in doc["elements"] if e["name"] == ("ui", "signer")[c["vtarget"]])
            sig = bytearray(bytes.fromhex(el["signature"]))
            sig[len(sig) - 1 - (vi % 8)] ^= 1 << (vi % 7)
            el["signature"] = bytes(sig).hex()
            labels.append("broken-target:" + el["name"])
            genuine = False
    else:
        spec = {"root": c["roots"][0], "leaf": c["roots"][1], "att": c["roots"][2],
                "inter": [c["roots"][3]], "auth": c["auth"], "custom": msg, "seed": c["tx"]}
        v2 = certs.V2Cert(spec)
        doc = v2.to_dict()
        if var == "missing-target":
            doc["targets"] = []
            genuine = False
        root_cert = v2.root_cert
        if var == "wrong-root":
            other = certs.p256_key(c["vkey"], role="otherroot")
            root_cert = certs.make_cert("root", other.public_key(), "root", other, "long")
            genuine = False
        elif var == "root-not-self-signed":
            # the chosen root certificate carries the right key but is issued by somebody
            # else: the chain does verify under its key; the statement does not ask for a
            # self-signed anchor
            other = certs.p256_key(c["vkey"], role="otherroot")
            root_cert = certs.make_cert("root", v2.keys["sgx_root"].public_key(), "other",
                                        other, "long")
            if genuine:
                genuine = None
        elif var == "bundled-root":
            # the whole chain hangs off a foreign root which the file brings along as an element
            # named like the root of trust; the operator chose the genuine root
            foreign = certs.V2Cert(dict(spec, root=c["roots"][0] + 1 + c["vkey"]))   # never the
            #                                                          genuine root's number
            doc = foreign.to_dict()
            doc["elements"].append({
                "name": "sgx_root", "type": "x509_pem", "signed_by": "sgx_root",
                "message": certs.der_to_b64(certs.cert_der(foreign.root_cert))})
            genuine = False
        elif var in ("one-target-signature-broken", "target-without-app-hash",
                     "attestation-message-reshaped"):
            labels[-1] += "-na"
        root_arg = tmp("root.pem")
        with open(root_arg, "wb") as f:
            f.write(certs.cert_pem(root_cert))
    att_path = tmp("attestation.json")
    with open(att_path, "w") as f:
        json.dump(doc, f)
    pk_path = tmp("pubkeys.json")
    fmap = {}
    comp = dict(zip([k[0] for k in c["keys"]], c["compressed_in_file"]))
    for p in order:
        raw = file_keys[p]
        if comp.get(p):
            import ecdsa
            raw = ecdsa.VerifyingKey.from_string(raw[1:], curve=ecdsa.SECP256k1).to_string(
                "compressed")
        fmap[p] = raw.hex()
    with open(pk_path, "w") as f:
        json.dump(fmap, f)
    if var == "unusable-input":
        kind = c.get("ukind", UNUSABLE[vi % len(UNUSABLE)])
        labels.append("unusable:" + kind)
        genuine = False
        if kind == "pubkeys-not-object":
            with open(pk_path, "w") as f:
                json.dump([[p, v] for p, v in fmap.items()], f)
        elif kind == "pubkeys-bad-key":
            with open(pk_path, "w") as f:
                json.dump(dict(fmap, **{order[vi % len(order)]: "zz" * 33}), f)
        elif kind == "pubkeys-key-not-on-curve":
            with open(pk_path, "w") as f:
                json.dump(dict(fmap, **{order[vi % len(order)]: "04" + "00" * 63 + "05"}), f)
        elif kind == "pubkeys-not-json":
            with open(pk_path, "w") as f:
                f.write(json.dumps(fmap)[:-1])
        elif kind == "pubkeys-empty":
            with open(pk_path, "w") as f:
                f.write("{}")
        elif kind == "pubkeys-missing":
            os.unlink(pk_path)
        elif kind == "cert-not-json":
            with open(att_path, "w") as f:
                f.write(json.dumps(doc)[1:])
        elif kind == "cert-missing":
            os.unlink(att_path)
        elif kind == "root-garbage":
            if plat == "ledger":
                root_arg = ("zz" * 65, root_arg[:-1], "0x" + root_arg, "")[c["vhdr"] % 4]
                if root_arg.startswith("0x"):
                    genuine = None      # another spelling of the same key
            else:
                with open(root_arg, "wb") as f:
                    f.write(certs.cert_pem(root_cert)[:-40])
        elif kind == "root-missing-or-not-a-point":
            if plat == "ledger":
                root_arg = "04" + "00" * 63 + "05"
            else:
                os.unlink(root_arg)
    options = types.SimpleNamespace(attestation_certificate_file_path=att_path,
                                    pubkeys_file_path=pk_path, root_authority=root_arg)
    out = io.StringIO()
    err = None
    try:
        with contextlib.redirect_stdout(out):
            fn = (vla if plat == "ledger" else vsa).do_verify_attestation
            if c.get("program"):
                from vlib.programs import as_program
                fn = as_program(fn, options, plat == "ledger")
                labels.append("via:program")
            fn(options)
    except HarnessError:
        raise
    except Exception as e:    # noqa - both CLIs turn every exception into a non-zero exit
        err = e
    text = out.getvalue()
    if genuine is None:
        labels.append("not-asserted")
        if err is not None:
            labels.append("refused")
            return Out(labels, True)
    if genuine and err is not None:
        raise Violation("genuine-refused:%s" % plat, "variant %s: %s: %s" % (
            var, type(err).__name__, str(err)[:300]))
    if genuine is False and err is None:
        raise Violation("vouched-for-non-genuine:%s:%s" % (plat, var.replace("-na", "")),
                        "variant %s accepted; output:\n%s" % (var, text[-1500:]))
    if err is not None:
        labels.append("refused")
        return Out(labels, True)
    labels.append("accepted")
    vals, keys = attest.parse_output(text)

    def expect(label, want, idx=0):
        got = vals.get(label, [None] * (idx + 1))
        got = got[idx] if len(got) > idx else None
        if got != want:
            raise Violation("printed-value:%s" % label, "printed %r, signed message has %r; "
                            "output:\n%s" % (got, want, text[-1200:]))
    expect("Hash", attest.pubkeys_hash(file_keys).hex())
    want_keys = {}
    for p in file_keys:
        import ecdsa
        want_keys[p] = ecdsa.VerifyingKey.from_string(
            file_keys[p][1:], curve=ecdsa.SECP256k1).to_string("compressed").hex()
    if keys != want_keys:
        raise Violation("printed-keys", "%r vs %r" % (keys, want_keys))
    if plat == "ledger":
        expect("UD value", c["ui_ud"].hex(), 0)
        expect("Derived public key (%s)" % attest.UI_PATH, ui_key.hex())
        expect("Authorized signer hash", c["signer_hash"].hex())
        expect("Authorized signer iteration", str(c["iteration"]))
        expect("Installed UI hash", c["ui_hash"].hex())
        expect("Installed UI version", c["ui_version"])
        expect("Installed Signer hash", c["signer_hash"].hex())
        expect("Installed Signer version", c["legacy_version"] if c["legacy"] else c["version"])
        ud_idx = 1
    else:
        expect("Installed powHSM MRENCLAVE", v2.q_rb_fields["mrenclave"].hex())
        expect("Installed powHSM MRSIGNER", v2.q_rb_fields["mrsigner"].hex())
        expect("Installed powHSM version", c["version"])
        ud_idx = 0
    if not c["legacy"]:
        expect("Platform", platform3.decode())
        expect("UD value", c["ud"].hex(), ud_idx)
        expect("Best block", c["best"].hex())
        expect("Last transaction signed", c["tx"].hex())
        expect("Timestamp", str(c["ts"]))
    return Out(labels, var != "none" or len(c["keys"]) >= 3)


def unusable_cases(tier, seed):
    """Every kind of unusable input x platform x message framing x call route, on one fixed
    genuine device (the random stage draws them too; this one makes sure each is met)."""
    out = []
    paths = [attest.UI_PATH] + ALL_PATHS[1:4]
    for plat in ("ledger", "sgx"):
        for kind in UNUSABLE:
            for legacy in ((False, True) if plat == "ledger" else (False,)):
                for program in (False, True):
                    for vhdr in ((0, 1, 2, 3) if kind == "root-garbage" and plat == "ledger"
                                 else (0,)):
                        out.append({
                            "plat": plat, "keys": [[p, 1000 + i] for i, p in enumerate(paths)],
                            "compressed_in_file": [False, True, False, False],
                            "file_order": [2, 0, 3, 1], "ud": bytes(range(32)),
                            "best": bytes([7]) * 32, "tx": bytes(8), "ts": 1700000000,
                            "ui_hash": bytes([1]) * 32, "signer_hash": bytes([2]) * 32,
                            "iteration": 3, "version": "5.4", "ui_version": "5.4",
                            "legacy": legacy, "legacy_version": "5.3",
                            "platform3": b"led" if plat == "ledger" else b"sgx",
                            "foreign_platform3": b"abc", "ui_ud": bytes([9]) * 32,
                            "roots": [11, 12, 13, 14], "auth": b"auth", "variant":
                            "unusable-input", "vi": 1, "vkey": 99, "vbytes": b"x",
                            "vpath": "zzz", "vhdr": vhdr, "vtarget": 0, "program": program,
                            "ukind": kind})
    # ... and every way of cutting the UI message short, on the same device
    base = dict(out[0], plat="ledger", platform3=b"led", program=False, ukind=UNUSABLE[0])
    for legacy in (False, True):
        for vhdr in (0, 1):
            for vtarget in (0, 1):
                for vi in (0, 11, 31):
                    out.append(dict(base, variant="ui-msg-truncated", legacy=legacy, vhdr=vhdr,
                                    vtarget=vtarget, vi=vi))
    return out


def stages(tier):
    from vlib.runner import EnumStage
    return [HypStage("verify", lambda t: cases(t), run_case, {"quick": 80, "thorough": 2500},
                     budget_s={"quick": 300, "thorough": 1200}),
            EnumStage("unusable-inputs", unusable_cases, run_case,
                      exhaustive={"quick": True, "thorough": True},
                      budget_s={"quick": 180, "thorough": 60})]
