"""C15 - attestations gathered from a genuine device verify end to end."""
import contextlib
import io
import json
import os
import shutil
import sys
import tempfile
import types

from hypothesis import strategies as st

from vlib.core import Violation, Out, HarnessError
from vlib.runner import HypStage
from vlib import mw, certs, attest
from vlib.strategies import textlike_head32
from vlib.device import BOOT, SIGNER
from vlib.genuine import Genuine
from vlib.refs import ALL_PATHS

import admin.dongle_admin as da
import admin.onboard as onboard
import admin.ledger_attestation as latt
import admin.sgx_attestation as satt
import admin.pubkeys as pubkeys
import admin.unlock as unlock
import admin.misc as misc
import admin.verify_ledger_attestation as vla
import admin.verify_sgx_attestation as vsa
from admin.certificate import HSMCertificate
from comm.platform import Platform

for _m in (onboard, latt, pubkeys, misc):
    _m.wait_for_reconnection = lambda: None

ID = "C15"
LEVEL = "exploration"
RULE = ("Hypothesis-generated genuine devices (random root / device / attestation / wallet keys, "
        "UI and signer hashes, iteration, UD value, blockchain state, message page sizes giving "
        "1..4 pages, legacy and current signer framing; SGX envelopes with QE auth data 1..1000 "
        "bytes and PEM chains of 2..3 certificates) run through the real command sequences "
        "onboard -> attestation -> pubkeys -> verify (Ledger) and attestation -> pubkeys -> "
        "verify (SGX), optionally a second Ledger attestation run that starts from the first "
        "run's file, with 0..1 single-point alteration of a device answer or of the root of "
        "trust; non-trivial = altered case, or >= 2 message pages; distinct by case fingerprint")
ASSUMPTIONS = [
    "the genuine device is simulated (vlib/genuine.py): Ledger endorsement hierarchy and SGX "
    "quote envelope are built by the harness with the framing the middleware expects",
    "bytes the device sends but nothing signs (SGX signature_len, certification data header, "
    "a third certificate) are not altered, as the statement restricts alterations to signed "
    "data, signatures, chain certificates and the root",
]
LEDGER_TARGETS = ["ui-message", "ui-signature", "ui-hash", "signer-message", "signer-signature",
                  "signer-hash", "device-header", "device-pub", "device-sig", "att-pub",
                  "att-sig", "pubkey", "root"]
SGX_TARGETS = ["quote", "quote-sig", "att-key", "qe-report", "qe-sig", "auth-data",
               "cert:quoting_enclave", "cert:platform_ca", "custom-in-quote", "custom-tail",
               "signer-message", "pubkey", "root"]
REQUIRED_LABELS = {t: ["plat:ledger", "plat:sgx", "unaltered:ok", "altered:refused", "legacy",
                       "refresh", "via:program",
                       "pages>=2", "ud-form:0x", "ud-form:plain", "ud-leading-zero", "in-place",
                       "tmpdir:other-fs|tmpdir:other-fs-unavailable"] + ["alter:" + x for x in LEDGER_TARGETS + SGX_TARGETS]
                   for t in ("quick", "thorough")}
h32 = st.binary(min_size=32, max_size=32)
# 32-byte values, with those that start with zero digits / bytes well represented
ud32 = st.one_of(h32, h32, st.binary(min_size=31, max_size=31).map(lambda b: b"\x00" + b),
                 st.binary(min_size=32, max_size=32).map(lambda b: bytes([b[0] & 0x0f]) + b[1:]),
                 st.binary(min_size=28, max_size=28).map(lambda b: bytes(4) + b),
                 textlike_head32())
PINCH = "abcdefghijkmnpqrstuvwxyzABCDEFGHJKLMNPQRSTUVWXYZ23456789"


@st.composite
def cases(draw, tier):
    plat = draw(st.sampled_from(["ledger", "sgx"]))
    c = {"platform": plat, "root": draw(st.integers(0, 2 ** 64)),
         "device": draw(st.integers(0, 2 ** 64)), "att": draw(st.integers(0, 2 ** 64)),
         "wallet": [[p, draw(st.one_of(st.integers(0, 2 ** 64), st.integers(0, 2 ** 64),
                                       st.sampled_from(["zero-x", "zero-y"])))]
                    for p in ALL_PATHS],
         "ui_hash": draw(h32), "signer_hash": draw(h32),
         "iteration": draw(st.one_of(st.sampled_from([0, 1, 65535]), st.integers(0, 65535))),
         "best": draw(h32), "tx": draw(st.binary(min_size=8, max_size=8)),
         "ts": draw(st.integers(0, 2 ** 64 - 1)), "ud": draw(ud32),
         # the user-defined value may be given with or without the 0x prefix
         "ud_form": draw(st.sampled_from(["plain", "0x", "0x"])),
         "legacy": draw(st.integers(0, 3)) == 0 if plat == "ledger" else False,
         "version": "5." + str(draw(st.integers(0, 9))),
         "ui_version": draw(st.sampled_from(["5.4", "5.3", "2.1"])),
         "page": draw(st.sampled_from([28, 30, 37, 55, 80, 109, 120, 200, 250])),
         "pin": "".join(draw(st.lists(st.sampled_from(PINCH), min_size=7, max_size=7))) + "a",
         "sgx_root": draw(st.integers(0, 2 ** 64)), "leaf": draw(st.integers(0, 2 ** 64)),
         "inter": draw(st.integers(0, 2 ** 64)),
         "auth": draw(st.one_of(st.binary(min_size=0, max_size=40), st.just(b""),
                                st.binary(min_size=0, max_size=1000))),
         "third_cert": draw(st.booleans()), "alter": None,
         "pem_wrap": draw(st.sampled_from([0, 64, 64, 76])),
         # SGX: digests (of the attested message, of key + auth data) that end or begin with a
         # zero byte
         "grind_custom": draw(st.sampled_from([None, None, "ends-00", "starts-00"])),
         "grind_auth": draw(st.sampled_from([None, None, "ends-00", "starts-00"])),
         # through adm_ledger.py / adm_sgx.py with a command line instead of the functions
         "program": draw(st.integers(0, 3)) == 0,
         # validity periods of the (genuine, unexpired) certificates of the SGX chain
         "cert_windows": draw(st.sampled_from([None, None, {"platform_ca": "no-expiry"},
                                               {"quoting_enclave": "no-expiry"},
                                               {"sgx_root": "no-expiry"},
                                               {"quoting_enclave": "ends-in-1h",
                                                "platform_ca": "started-1h-ago"}])),
         # where the system keeps temporary files: on the output's file system, or another
         "tmpdir": draw(st.sampled_from(["same", "same", "other-fs"])),
         # does the attestation command write to the very file it was given as input?
         "in_place": draw(st.sampled_from([None, None, "first", "refresh", "both"])),
         "refresh": None}
    if plat == "ledger" and draw(st.integers(0, 2)) == 0:
        # a second attestation run that starts from the file the first one wrote
        c["refresh"] = {"ud": draw(ud32), "best": draw(h32),
                        "tx": draw(st.binary(min_size=8, max_size=8)),
                        "ts": draw(st.integers(0, 2 ** 64 - 1))}
    if plat == "sgx":
        c["page"] = draw(st.sampled_from([100, 200, 250]))
    if draw(st.integers(0, 2)) > 0:
        t = draw(st.sampled_from(LEDGER_TARGETS if plat == "ledger" else SGX_TARGETS))
        c["alter"] = {"target": t, "pos": draw(st.integers(0, 5000)),
                      "bit": draw(st.integers(0, 7)),
                      "path": draw(st.sampled_from(ALL_PATHS))}
    return c


def ud_arg(c, ud):
    return ("0x" if c.get("ud_form") == "0x" else "") + ud.hex()


_TMP = {}


def workdir():
    pid = os.getpid()
    if pid not in _TMP:
        _TMP[pid] = tempfile.mkdtemp(prefix="verif-c15-")
        import atexit
        atexit.register(shutil.rmtree, _TMP[pid], True)
    d = _TMP[pid]
    for f in os.listdir(d):
        os.unlink(os.path.join(d, f))
    return d


def power_cycle(w):
    w.mode = BOOT
    w.unlocked = False
    w.pinbuf = {}


_VIA = {"program": False, "plat": "ledger"}


def call(fn, options, stdin_text=""):
    if _VIA["program"]:
        from vlib.programs import as_program
        fn = as_program(fn, options, _VIA["plat"] == "ledger")
    out = io.StringIO()
    saved = sys.stdin
    sys.stdin = io.StringIO(stdin_text)
    try:
        with contextlib.redirect_stdout(out):
            fn(options)
        return None, out.getvalue()
    except HarnessError:
        raise
    except Exception as e:      # noqa - the CLIs turn any exception into a non-zero exit
        return e, out.getvalue()
    finally:
        sys.stdin = saved


def reload_equal(path, what):
    try:
        c1 = HSMCertificate.from_jsonfile(path)
        d1 = c1.to_dict()
        with open(path) as f:
            raw = json.load(f)
    except Exception as e:
        raise Violation("written-certificate-does-not-load:" + what, "%s: %s" % (
            type(e).__name__, str(e)[:300]))
    if json.loads(json.dumps(d1)) != raw:
        raise Violation("certificate-load-loses-data:" + what, "file %s vs reloaded %s" % (
            json.dumps(raw)[:400], json.dumps(d1)[:400]))
    return raw


def _other_fs_dir(ref):
    dev = os.stat(ref).st_dev
    for cand in ("/dev/shm", "/run/lock", "/var/tmp", "/run"):
        try:
            if os.path.isdir(cand) and os.access(cand, os.W_OK) and os.stat(cand).st_dev != dev:
                return cand
        except OSError:
            pass
    return None


def run_case(c):
    """(wrapper) the case proper runs with the system's temporary directory where the case says"""
    d = workdir()
    other = _other_fs_dir(d) if c.get("tmpdir") == "other-fs" else None
    if other is None:
        out = _run_case(c)
        if c.get("tmpdir") == "other-fs":
            out = Out(list(out.labels) + ["tmpdir:other-fs-unavailable"], out.nontrivial)
        return out
    saved_env, saved_td = os.environ.get("TMPDIR"), tempfile.tempdir
    # (a directory of this case's own on that file system: it is shared with every other
    #  process of the machine)
    other = tempfile.mkdtemp(prefix="verif-c15-", dir=other)
    os.environ["TMPDIR"] = other
    tempfile.tempdir = None
    try:
        out = _run_case(c)
        return Out(list(out.labels) + ["tmpdir:other-fs"], out.nontrivial)
    finally:
        if saved_env is None:
            os.environ.pop("TMPDIR", None)
        else:
            os.environ["TMPDIR"] = saved_env
        tempfile.tempdir = saved_td
        shutil.rmtree(other, ignore_errors=True)       # with whatever the code left behind


def _run_case(c):
    plat = c["platform"]
    alter = c["alter"]
    labels = ["plat:" + plat, "ud-form:" + c.get("ud_form", "plain")] + \
        (["ud-leading-zero"] if c["ud"][0] < 16 else [])
    spec = dict(c)
    # keys with a coordinate that begins with a zero byte, where the case asks for one
    spec["wallet"] = [[p_, attest.zero_x_index(p_, k_[-1]) if isinstance(k_, str) else k_]
                      for p_, k_ in c["wallet"]]
    if alter:
        a = dict(alter)
        if a["target"] == "pubkey":
            a["target"] = "pubkey:" + a["path"]
        spec["alter"] = a if a["target"] != "root" else None
        labels.append("alter:" + alter["target"])
    w = mw.default_world()
    w.mode = BOOT
    w.unlocked = False
    w.onboarded = plat == "sgx"
    w.pin = c["pin"].encode()
    w.post_mode = SIGNER
    g = Genuine(w, spec)
    mw.install(w)
    da.getDongle = lambda debug: mw.get_dongle(w)()
    import ledgerblue.comm
    ledgerblue.comm.getDongle = da.getDongle
    d = workdir()
    Platform.set(Platform.LEDGER if plat == "ledger" else Platform.SGX,
                 {} if plat == "ledger" else {"sgx_host": "h", "sgx_port": 1})
    failures = []
    _VIA.update(program=bool(c.get("program")), plat=plat)
    if c.get("program"):
        labels.append("via:program")
    try:
        base = dict(verbose=False, pin=c["pin"], any_pin=False, no_exec=False, no_unlock=False,
                    attestation_ud_source=ud_arg(c, c["ud"]), new_pin=None)
        if plat == "ledger":
            # 1. onboarding + attestation key set-up
            real_urandom = os.urandom
            att_key_file = os.path.join(d, "attkey.json")

            def stdin_hook():
                return "yes\n\n"
            # the operator re-plugs the device between onboarding and the attestation set-up
            orig_readline = None
            e, out = None, ""
            opts = types.SimpleNamespace(output_file_path=att_key_file, **base)
            saved_unlock = onboard.do_unlock

            def unlock_after_replug(options, **kw):
                power_cycle(w)
                return saved_unlock(options, **kw)
            onboard.do_unlock = unlock_after_replug
            try:
                e, out = call(onboard.do_onboard, opts, "yes\n\n")
            finally:
                onboard.do_unlock = saved_unlock
            if e is not None:
                failures.append(("onboard", e))
            else:
                if g.pin_set != c["pin"].encode():
                    raise Violation("onboard-pin", "device got PIN %r, operator chose %r" % (
                        g.pin_set, c["pin"]))
                if g.seed_received is None or len(g.seed_received) != 32:
                    raise Violation("onboard-seed", repr(g.seed_received))
                reload_equal(att_key_file, "attestation-key")
            # 2. UI + signer attestation
            att_file = os.path.join(d, "attestation.json")
            if c.get("in_place") in ("first", "both"):
                # the operator lets the command update the certificate file it reads
                att_file = att_key_file
                labels.append("in-place")
            if not failures:
                power_cycle(w)
                opts = types.SimpleNamespace(output_file_path=att_file,
                                             attestation_certificate_file_path=att_key_file,
                                             **base)
                e, out = call(latt.do_attestation, opts)
                if e is not None:
                    failures.append(("attestation", e))
                else:
                    reload_equal(att_file, "attestation")
                if not failures and c.get("refresh"):
                    r = c["refresh"]
                    g.s.update(best=r["best"], tx=r["tx"], ts=r["ts"])
                    c = dict(c, ud=r["ud"], best=r["best"], tx=r["tx"], ts=r["ts"])
                    power_cycle(w)
                    att_file2 = os.path.join(d, "attestation2.json")
                    if c.get("in_place") in ("refresh", "both"):
                        att_file2 = att_file
                        labels.append("in-place")
                    opts = types.SimpleNamespace(
                        output_file_path=att_file2, attestation_certificate_file_path=att_file,
                        **dict(base, attestation_ud_source=ud_arg(c, r["ud"])))
                    e, out = call(latt.do_attestation, opts)
                    if e is not None:
                        failures.append(("attestation-refresh", e))
                    else:
                        reload_equal(att_file2, "attestation-refresh")
                        att_file = att_file2
                    labels.append("refresh")
        else:
            att_file = os.path.join(d, "attestation.json")
            w.mode = SIGNER
            w.unlocked = True
            opts = types.SimpleNamespace(output_file_path=att_file, **dict(base, no_unlock=True))
            e, out = call(satt.do_attestation, opts)
            if e is not None:
                failures.append(("attestation", e))
            else:
                reload_equal(att_file, "attestation")
        # 3. public keys (device is in the signer now)
        pk_txt = os.path.join(d, "pubkeys.txt")
        pk_json = os.path.join(d, "pubkeys.json")
        if not failures:
            opts = types.SimpleNamespace(output_file_path=pk_txt, **dict(base, no_unlock=True))
            e, out = call(pubkeys.do_get_pubkeys, opts)
            if e is not None:
                failures.append(("pubkeys", e))
        # 4. verification
        text = ""
        if not failures:
            if plat == "ledger":
                root_arg = g.root_sk and certs.pub_uncompressed(g.root_sk).hex()
                if alter and alter["target"] == "root":
                    root_arg = certs.pub_uncompressed(certs.sk_from_int(
                        c["root"] + 1 + alter["pos"])).hex()
            else:
                root_arg = os.path.join(d, "root.pem")
                rc = g.v2.root_cert
                pem = certs.cert_pem(rc)
                if alter and alter["target"] == "root":
                    der = certs.flip_in_signed_or_signature(certs.cert_der(rc), alter["pos"],
                                                            alter["bit"])
                    pem = (b"-----BEGIN CERTIFICATE-----\n" + certs.der_to_b64(der).encode() +
                           b"\n-----END CERTIFICATE-----\n")
                with open(root_arg, "wb") as f:
                    f.write(pem)
            opts = types.SimpleNamespace(attestation_certificate_file_path=att_file,
                                         pubkeys_file_path=pk_json, root_authority=root_arg)
            e, text = call((vla if plat == "ledger" else vsa).do_verify_attestation, opts)
            if e is not None:
                failures.append(("verify", e))
    finally:
        Platform.set(Platform.LEDGER)
        _VIA["program"] = False
    mw.check_sim(w)
    applied = any(ev[0] == "altered" for ev in g.events) or (alter and alter["target"] == "root")
    if alter and not applied:
        labels.append("alteration-not-reached")
    if not alter or not applied:
        if failures:
            step, e = failures[0]
            raise Violation("genuine-device-refused:%s:%s" % (plat, step), "%s: %s" % (
                type(e).__name__, str(e)[:400]))
        check_values(c, g, text, plat)
        labels.append("unaltered:ok")
    else:
        if not failures:
            raise Violation("alteration-accepted:%s:%s" % (plat, alter["target"]),
                            "altered %s (byte %d bit %d) yet every step succeeded; verify "
                            "output:\n%s" % (alter["target"], alter["pos"], alter["bit"],
                                             text[-1200:]))
        labels.append("altered:refused")
        labels.append("refused-at:" + failures[0][0])
    if c["legacy"]:
        labels.append("legacy")
    msg_len = 109 if plat == "ledger" else 2000
    pages = -(-msg_len // c["page"])
    if pages >= 2:
        labels.append("pages>=2")
    return Out(labels, bool(alter) or pages >= 2)


def check_values(c, g, text, plat):
    vals, keys = attest.parse_output(text)

    def expect(label, want, idx=0):
        got = vals.get(label, [])
        got = got[idx] if len(got) > idx else None
        if got != want:
            raise Violation("verified-value:%s" % label, "verify prints %r, the device holds %r;"
                            " output:\n%s" % (got, want, text[-1200:]))
    want_keys = {p: certs.pub_compressed(sk).hex() for p, sk in g.wallet.items()}
    if keys != want_keys:
        raise Violation("verified-keys", "%r vs %r" % (keys, want_keys))
    expect("Hash", g.pkhash().hex())
    if plat == "ledger":
        expect("UD value", c["ud"].hex(), 0)
        expect("Derived public key (%s)" % attest.UI_PATH,
               certs.pub_compressed(g.wallet[attest.UI_PATH]).hex())
        expect("Authorized signer hash", c["signer_hash"].hex())
        expect("Authorized signer iteration", str(c["iteration"]))
        expect("Installed UI hash", c["ui_hash"].hex())
        expect("Installed UI version", c["ui_version"])
        expect("Installed Signer hash", c["signer_hash"].hex())
        expect("Installed Signer version", c["version"])
        ud_idx = 1
    else:
        expect("Installed powHSM MRENCLAVE", g.v2.q_rb_fields["mrenclave"].hex())
        expect("Installed powHSM MRSIGNER", g.v2.q_rb_fields["mrsigner"].hex())
        expect("Installed powHSM version", c["version"])
        ud_idx = 0
    if not c["legacy"]:
        expect("Platform", "sgx" if plat == "sgx" else "led")
        expect("UD value", c["ud"].hex(), ud_idx)
        expect("Best block", c["best"].hex())
        expect("Last transaction signed", c["tx"].hex())
        expect("Timestamp", str(g.s["ts"]))


def stages(tier):
    return [HypStage("flows", lambda t: cases(t), run_case, {"quick": 150, "thorough": 3000},
                     budget_s={"quick": 300, "thorough": 1200})]
