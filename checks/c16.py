"""C16 - loading an attestation file always terminates with a usable verdict."""
import json
import os
import shutil
import signal
import tempfile

from hypothesis import strategies as st

from vlib.core import Violation, Out, HarnessError
from vlib.runner import HypStage
from vlib import env, certs
from checks import c06, c07

env.prepare()
from admin.certificate import (HSMCertificate, HSMCertificateRoot,   # noqa: E402
                               HSMCertificateV2ElementX509)


ID = "C16"
LEVEL = "exploration"
RULE = ("Hypothesis-generated JSON documents shaped like version 1 / 2 certificates, built from "
        "a well-formed element graph (0..12 elements, names from a small pool) with 0..2 defects "
        "(self-signed, mutually signed, dangling or non-string signer, missing / mistyped / "
        "duplicated field, duplicated element name, unknown version or element type, dangling / "
        "duplicated / non-string target, wrong container types), plus genuine certificates from "
        "the C06 / C07 builders; non-trivial = document that loads, or that contains a cycle or "
        "a dangling reference; distinct by document text")
ASSUMPTIONS = [
    "non-termination is observed through a 10 s SIGALRM watchdog (about 10^5 times the normal "
    "cost of a load); a hit is re-run once before it is reported",
    "the graph walk that judges 'cycle-free path to the root' is the harness's own, over "
    "to_dict() of the loaded certificate",
]
V1N = ["device", "attestation", "ui", "signer"]
V2N = ["quote", "attestation", "quoting_enclave", "platform_ca", "a", "b", "c", "sgx_root",
       "d", "e", "f", "g", "h",
       # names are free text: outside ASCII, and a name cut in the middle of a surrogate pair
       "caf\u00e9", "n\ud83d"]
HEX = ["aa", "bb", "cc", "04" + "11" * 64, "3006020101020101", "00" * 432, "00" * 384,
       "ff" + "04" + "22" * 64,
       # hex-dump spelling (blanks between the bytes), sound and damaged near the end
       " ".join(["ab"] * 70), " ".join(["ab"] * 40) + " a", " ".join(["ab"] * 66) + " zz",
       "ab  " * 50 + "g"]
B64 = ["AAAA", "MIIB", "QUJD"]
JUNK = [None, 0, 1, -1, True, 1.5, "", "x", "zz", [], [1], {}, {"name": 1}]
DEFECTS = ["self-signed", "cycle2", "cycle3", "dangling-signer", "nonstring-signer",
           "missing-field", "mistyped-field", "dup-field", "dup-name", "unknown-version",
           "unknown-type", "dangling-target", "dup-target", "nonstring-target",
           "elements-not-list", "targets-not-list", "element-not-object", "top-not-object",
           "missing-top-field", "bad-hex", "offpath-element"]
V2_SHAPES = ["att-msg-extended", "quote-msg-extended", "att-msg-short", "quote-msg-short",
             "att-key-compressed", "auth-empty", "other-target"]
KNOWN_SIG = "validation-raises:NotImplementedError"
ROOT1_PUB = certs.pub_uncompressed(certs.sk_from_int(12345))


@st.composite
def element(draw, v, name, signed_by):
    e = [["name", name], ["signed_by", signed_by]]
    if v == 1:
        e += [["message", draw(st.sampled_from(HEX))], ["signature", draw(st.sampled_from(HEX))]]
        if draw(st.integers(0, 2)) == 0:
            e.append(["tweak", draw(st.sampled_from(HEX))])
    else:
        t = draw(st.sampled_from(["sgx_quote", "sgx_attestation_key", "x509_pem"]))
        e.append(["type", t])
        if t == "sgx_quote":
            e += [["message", draw(st.sampled_from(HEX))],
                  ["custom_data", draw(st.sampled_from(HEX))],
                  ["signature", draw(st.sampled_from(HEX))]]
        elif t == "sgx_attestation_key":
            e += [["message", draw(st.sampled_from(HEX))], ["key", draw(st.sampled_from(HEX))],
                  ["auth_data", draw(st.sampled_from(HEX))],
                  ["signature", draw(st.sampled_from(HEX))]]
        else:
            e.append(["message", draw(st.sampled_from(B64))])
    return e


def eget(e, k):
    for kk, vv in e:
        if kk == k:
            return vv
    return None


def eset(e, k, v):
    for p in e:
        if p[0] == k:
            p[1] = v
            return
    e.append([k, v])


@st.composite
def cases(draw, tier):
    g = draw(st.integers(0, 9))
    if g <= 1:
        return {"kind": "genuine-v1", "c06": draw(c06.cases(tier))}
    if g == 2:
        cc = draw(c07.cases(tier))
        return {"kind": "genuine-v2", "c07": cc}
    if g == 3:
        # validly signed version-2 certificates of unusual but loadable shape
        cc = draw(c07.cases(tier))
        cc["corruptions"] = []
        for k in ("rd_shift_q", "rd_shift_a", "grind_auth", "grind_custom"):
            cc["spec"].pop(k, None)
        return {"kind": "shaped-v2", "c07": cc,
                "shape": draw(st.sampled_from(V2_SHAPES)),
                "extra": draw(st.binary(min_size=1, max_size=8)),
                "cut": draw(st.integers(1, 300)),
                "target": draw(st.sampled_from(["attestation", "quoting_enclave", "top"])),
                "with_quote": draw(st.booleans())}
    v = draw(st.sampled_from([1, 2]))
    pool = V1N if v == 1 else V2N
    rootname = "root" if v == 1 else "sgx_root"
    n = draw(st.integers(0, 12 if v == 2 else 4))
    if v == 1:
        names = list(draw(st.permutations(V1N)))[:n]
    else:
        names = list(draw(st.permutations(pool)))[:n] if draw(st.booleans()) else \
            list(dict.fromkeys(draw(st.sampled_from(pool)) for _ in range(n)))
    els = []
    for i, nm in enumerate(names):
        sb = rootname if i == 0 or draw(st.integers(0, 2)) == 0 else \
            names[draw(st.integers(0, i - 1))]
        els.append(draw(element(v, nm, sb)))
    targets = draw(st.lists(st.sampled_from(names), max_size=3, unique=True)) if names else []
    top = [["version", v], ["targets", targets], ["elements", els]]
    defects = []
    for _ in range(draw(st.sampled_from([0, 0, 1, 1, 1, 2]))):
        d = draw(st.sampled_from(DEFECTS))
        defects.append(d)
        good = [e for e in els if _is_pairs(e)]
        pick = (lambda: good[draw(st.integers(0, len(good) - 1))]) if good else None
        if d == "top-not-object":
            return {"kind": "doc", "v": v, "raw": draw(st.sampled_from(JUNK)), "defects": defects}
        if d == "unknown-version":
            eset(top, "version", draw(st.sampled_from([0, 3, "1", None, 1.0, 2.0, True, [1], {}])))
        elif d == "elements-not-list":
            eset(top, "elements", draw(st.sampled_from([None, 0, "x", {}, {"name": "ui"}])))
        elif d == "targets-not-list":
            eset(top, "targets", draw(st.sampled_from([None, 0, "ui", {}, {"ui": 1}])))
        elif d == "missing-top-field":
            k = draw(st.sampled_from(["version", "targets", "elements"]))
            top[:] = [p for p in top if p[0] != k]
        elif d == "dangling-target":
            targets.append(draw(st.sampled_from(["nosuch", "root", "sgx_root", "x"])))
        elif d == "dup-target":
            if targets:
                targets.append(targets[0])
        elif d == "nonstring-target":
            targets.append(draw(st.sampled_from([None, 0, 1.5, True, [], ["ui"], {}])))
        elif d == "offpath-element":
            # an element no target depends on, certified by nothing in particular
            spare = [nm for nm in pool if nm not in names] or ["spare"]
            e2 = draw(element(v, spare[0], rootname))
            eset(e2, "signed_by", draw(st.sampled_from([None, None, 0, "nosuch", "", spare[0],
                                                        rootname, names[0] if names else
                                                        rootname])))
            els.append(e2)
        elif d == "element-not-object":
            els.append(draw(st.sampled_from([None, 0, "ui", [], ["name", "ui"]])))
        elif pick is None:
            continue
        elif d == "self-signed":
            e = pick()
            eset(e, "signed_by", eget(e, "name"))
            if draw(st.booleans()) and eget(e, "name") not in targets:
                targets.append(eget(e, "name"))
        elif d in ("cycle2", "cycle3"):
            k = 2 if d == "cycle2" else 3
            if len(good) >= k:
                idx = draw(st.lists(st.integers(0, len(good) - 1), min_size=k, max_size=k,
                                    unique=True))
                for a, b in zip(idx, idx[1:] + idx[:1]):
                    eset(good[a], "signed_by", eget(good[b], "name"))
                if draw(st.integers(0, 2)) > 0 and eget(good[idx[0]], "name") not in targets:
                    targets.append(eget(good[idx[0]], "name"))
        elif d == "dangling-signer":
            e = pick()
            eset(e, "signed_by", draw(st.sampled_from(["nosuch", "", "ROOT", "root ",
                                                       "sgx_root" if v == 1 else "root"])))
            if draw(st.booleans()) and eget(e, "name") not in targets:
                targets.append(eget(e, "name"))
        elif d == "nonstring-signer":
            e = pick()
            eset(e, "signed_by", draw(st.sampled_from([None, 0, 1.5, True, [], ["root"], {}])))
            if draw(st.booleans()) and eget(e, "name") not in targets:
                targets.append(eget(e, "name"))
        elif d == "missing-field":
            e = pick()
            k = draw(st.sampled_from([p[0] for p in e]))
            e[:] = [p for p in e if p[0] != k]
        elif d == "mistyped-field":
            e = pick()
            k = draw(st.sampled_from([p[0] for p in e]))
            eset(e, k, draw(st.sampled_from(JUNK)))
        elif d == "bad-hex":
            e = pick()
            k = draw(st.sampled_from([p[0] for p in e if p[0] not in ("name", "signed_by",
                                                                       "type")] or ["message"]))
            eset(e, k, draw(st.sampled_from(["", "zz", "a", "0x00", "aa bb", "!!!!",
                                             # text that is not empty and decodes to nothing
                                             " ", "\n", "\r\n", "=", "====", "-",
                                             " ".join(["cd"] * 48) + " x",
                                             "\n".join(["0123456789abcdef" * 2] * 6) + "q"])))
        elif d == "dup-field":
            e = pick()
            k = draw(st.sampled_from([p[0] for p in e]))
            e.append([k, draw(st.one_of(st.sampled_from(JUNK), st.sampled_from(HEX),
                                        st.sampled_from(pool + [rootname])))])
        elif d == "dup-name":
            e = pick()
            e2 = draw(element(v, eget(e, "name"), draw(st.sampled_from(names + [rootname]))))
            els.append(e2)
        elif d == "unknown-type":
            e = pick()
            eset(e, "type", draw(st.sampled_from(["nosuch", None, 1, "", "X509_PEM"])))
    return {"kind": "doc", "v": v, "top": top, "defects": defects}


def ser(x):
    """JSON text; lists of [key, value] pairs under the keys of a certificate become objects,
    which lets a document carry duplicated keys."""
    return json.dumps(x)


def render(c):
    """-> (document text, root object for validation, version hint)"""
    if c["kind"] == "text":
        if c.get("v") == 2:
            return c["text"], HSMCertificateV2ElementX509(certs.V2Cert(
                {"root": 1, "leaf": 2, "att": 3, "auth": b"a", "custom": b"c"}
            ).root_element_map()), 2
        return c["text"], HSMCertificateRoot(c.get("root_hex") or ROOT1_PUB.hex()), c.get("v", 0)
    if c["kind"] == "genuine-v1":
        cert, root_pub = c06.build(c["c06"])
        return json.dumps(cert.to_dict()), HSMCertificateRoot(root_pub.hex()), 1
    if c["kind"] == "genuine-v2":
        doc, root_map, broken, labels, v = c07.apply(c["c07"])
        return json.dumps(doc), HSMCertificateV2ElementX509(root_map), 2
    if c["kind"] == "shaped-v2":
        doc, root_map, broken, labels, v = c07.apply(c["c07"])
        els = {e["name"]: e for e in doc["elements"]}
        sh = c["shape"]
        if sh in ("att-msg-extended", "att-msg-short"):
            m = bytes.fromhex(els["attestation"]["message"])
            m = m + c["extra"] if sh == "att-msg-extended" else m[:-c["cut"]]
            els["attestation"]["message"] = m.hex()
            els["attestation"]["signature"] = certs.sign_p256(
                v.keys["quoting_enclave"], m).hex()
        elif sh in ("quote-msg-extended", "quote-msg-short"):
            m = bytes.fromhex(els["quote"]["message"])
            m = m + c["extra"] if sh == "quote-msg-extended" else m[:-c["cut"]]
            els["quote"]["message"] = m.hex()
            els["quote"]["signature"] = certs.sign_p256(v.keys["attestation"], m).hex()
        elif sh == "att-key-compressed":
            raw = bytes.fromhex(els["attestation"]["key"])
            els["attestation"]["key"] = (bytes([2 + (raw[-1] & 1)]) + raw[1:33]).hex()
        elif sh == "auth-empty":
            v2 = certs.V2Cert(dict(c["c07"]["spec"], auth=b""))
            doc, root_map = v2.to_dict(), v2.root_element_map()
        elif sh == "other-target":
            t = v.chain[-1] if c["target"] == "top" else c["target"]
            doc["targets"] = (["quote"] if c["with_quote"] else []) + [t]
        return json.dumps(doc), HSMCertificateV2ElementX509(root_map), 2
    v = c["v"]
    root = HSMCertificateRoot(ROOT1_PUB.hex()) if v == 1 else \
        HSMCertificateV2ElementX509(certs.V2Cert(
            {"root": 1, "leaf": 2, "att": 3, "auth": b"a", "custom": b"c"}).root_element_map())
    if "raw" in c:
        return json.dumps(c["raw"]), root, v

    def obj(pairs):
        parts = []
        for k, val in pairs:
            if k == "elements" and isinstance(val, list):
                inner = ",".join(obj(e) if _is_pairs(e) else json.dumps(e) for e in val)
                parts.append('"elements":[%s]' % inner)
            else:
                parts.append("%s:%s" % (json.dumps(k), json.dumps(val)))
        return "{" + ",".join(parts) + "}"
    return obj(c["top"]), root, v


def _is_pairs(e):
    return isinstance(e, list) and all(isinstance(p, list) and len(p) == 2 and
                                       isinstance(p[0], str) for p in e) and len(e) > 0 and \
        any(p[0] in ("name", "signed_by", "message", "type") for p in e)


class Timeout(Exception):
    pass


def _alarm(*a):
    raise Timeout()


def guarded(fn, what, text):
    """fn() under a 10 s alarm of its own; the runner's per-case watchdog (handler and the time
    it had left) is put back afterwards."""
    import time
    for attempt in (1, 2):
        prev = signal.getsignal(signal.SIGALRM)
        left = signal.getitimer(signal.ITIMER_REAL)[0]
        signal.setitimer(signal.ITIMER_REAL, 0)
        t0 = time.monotonic()
        signal.signal(signal.SIGALRM, _alarm)
        signal.alarm(10)
        try:
            return fn()
        except Timeout:
            if attempt == 2:
                raise Violation("does-not-terminate:" + what, text[:1500])
        finally:
            signal.alarm(0)
            signal.signal(signal.SIGALRM, prev if prev is not None else signal.SIG_DFL)
            if left:
                signal.setitimer(signal.ITIMER_REAL, max(0.5, left - (time.monotonic() - t0)))


def norm(res):
    out = {}
    for k, v in res.items():
        if v[0] is True:
            val = v[1]
            if isinstance(val, dict):
                val = {"message": val.get("message"),
                       "sgx_quote": val["sgx_quote"].get_raw_data().hex()}
            out[k] = (True, val, v[2] if len(v) > 2 else None)
        else:
            out[k] = tuple(v)
    return out


_TMP = {}


def tmpfile(name):
    pid = os.getpid()
    if pid not in _TMP:
        _TMP[pid] = tempfile.mkdtemp(prefix="verif-c16-")
        import atexit
        atexit.register(shutil.rmtree, _TMP[pid], True)
    return os.path.join(_TMP[pid], name)


def judge_text(text, root, labels):
    """The oracle proper, on the text of a document (shared with the fuzz tier)."""
    path = tmpfile("doc.json")
    with open(path, "w") as f:
        f.write(text)

    def load():
        try:
            return HSMCertificate.from_jsonfile(path)
        except Timeout:
            raise
        except Exception as e:   # noqa - reporting an error is a legal outcome
            return e
    cert = guarded(load, "load", text)
    if isinstance(cert, Exception):
        labels.append("load-error:" + type(cert).__name__)
        return False
    labels.append("loaded")
    try:
        d = cert.to_dict()
        els = {e["name"]: e for e in d["elements"]}
        targets = d["targets"]
        rootname = cert.ROOT_ELEMENT
    except Exception:
        d = None
        els = {n: {"signed_by": e.signed_by} for n, e in cert._elements.items()}
        targets = cert._targets
        rootname = cert.ROOT_ELEMENT
        labels.append("to_dict-raises")
    # every target has a finite, cycle-free path to the root of trust
    for t in targets:
        seen = []
        cur = t
        while True:
            try:
                known = cur in els
            except TypeError:
                known = False
            if not known:
                raise Violation("loaded-with-dangling-reference", "target %r: %r is not an "
                                "element; document %s" % (t, cur, text[:1200]))
            if cur in seen:
                raise Violation("loaded-with-cycle", "target %r path %r repeats %r; document %s"
                                % (t, seen, cur, text[:1200]))
            seen.append(cur)
            sb = els[cur]["signed_by"]
            if sb == rootname:
                break
            cur = sb
    if targets:
        labels.append("loaded-with-targets")

    def validate():
        return cert.validate_and_get_values(root)
    try:
        res = guarded(validate, "validate", text)
    except Violation:
        raise
    except Exception as e:
        raise Violation("validation-raises:%s" % type(e).__name__, "%s; document %s" % (
            str(e)[:200], text[:1200]))
    try:
        tset = set(targets)
    except TypeError:
        tset = None
    if not isinstance(res, dict) or (tset is not None and set(res) != tset):
        raise Violation("no-verdict-for-some-target", "verdicts %r targets %r" % (res, targets))
    for k, vv in res.items():
        if not isinstance(vv, (tuple, list)) or len(vv) < 2 or type(vv[0]) is not bool:
            raise Violation("verdict-shape", repr(vv)[:200])
    try:
        res_again = guarded(validate, "second validation", text)
    except Violation:
        raise
    except Exception as e:
        raise Violation("second-validation-raises:%s" % type(e).__name__, str(e)[:200])
    if norm(res_again) != norm(res):
        raise Violation("second-validation-differs", "%r vs %r" % (norm(res), norm(res_again)))
    anyvalid = any(vv[0] for vv in res.values())
    labels.append("some-target-valid" if anyvalid else "no-target-valid")
    # save / load round trip
    p2 = tmpfile("saved.json")
    try:
        guarded(lambda: cert.save_to_jsonfile(p2), "save", text)
    except Violation:
        raise
    except Exception as e:
        raise Violation("save-refuses-loaded-certificate", "%s: %s; document %s" % (
            type(e).__name__, str(e)[:200], text[:1000]))
    try:
        c2 = guarded(lambda: HSMCertificate.from_jsonfile(p2), "load of the saved file", text)
        r2 = guarded(lambda: c2.validate_and_get_values(root), "validation after reload", text)
    except Violation:
        raise
    except Exception as e:
        raise Violation("saved-certificate-does-not-load", "%s: %s; document %s" % (
            type(e).__name__, str(e)[:200], text[:1000]))
    if norm(r2) != norm(res):
        raise Violation("round-trip-changes-verdicts", "%r vs %r" % (norm(res), norm(r2)))
    labels.append("round-trip")
    # the same once more for an object that has judged the document for ANOTHER root before
    # (an operator trying the wrong root file first): what it says about this root afterwards,
    # and what its saved copy says, are the verdicts above
    try:
        other = _other_root(root)
        cert_b = guarded(load, "second load", text)
        guarded(lambda: cert_b.validate_and_get_values(other), "validation (another root)", text)
        rb = guarded(lambda: cert_b.validate_and_get_values(root), "validation (this root again)",
                     text)
        p3 = tmpfile("saved-b.json")
        guarded(lambda: cert_b.save_to_jsonfile(p3), "save", text)
        c3 = guarded(lambda: HSMCertificate.from_jsonfile(p3), "load of the saved file", text)
        r3 = guarded(lambda: c3.validate_and_get_values(root), "validation after reload", text)
    except Violation:
        raise
    except Exception as e:
        raise Violation("second-object-raises:%s" % type(e).__name__, "%s; document %s" % (
            str(e)[:200], text[:1000]))
    if norm(rb) != norm(r3) or norm(r3) != norm(res):
        raise Violation("round-trip-changes-verdicts", "an object that validated against "
                        "another root first says %r, its saved and reloaded copy %r, a fresh "
                        "object %r" % (norm(rb), norm(r3), norm(res)))
    labels.append("round-trip:after-another-root")
    return True


_OTHER = {}


def _other_root(root):
    if isinstance(root, HSMCertificateRoot):
        if 1 not in _OTHER:
            _OTHER[1] = HSMCertificateRoot(certs.pub_uncompressed(certs.sk_from_int(
                0x1234567)).hex())
        return _OTHER[1]
    if 2 not in _OTHER:
        k = certs.p256_key(0x7654321, role="unrelated-root")
        _OTHER[2] = HSMCertificateV2ElementX509({
            "name": "sgx_root", "signed_by": "sgx_root",
            "message": certs.der_to_b64(certs.cert_der(certs.make_cert(
                "root", k.public_key(), "root", k, "long")))})
    return _OTHER[2]


def run_case(c):
    text, root, v = render(c)
    labels = ["kind:" + c["kind"], "version:%s" % v]
    for d in c.get("defects", []):
        labels.append("defect:" + d)
    if c["kind"] == "shaped-v2":
        labels.append("shape:" + c["shape"])
    loaded = judge_text(text, root, labels)
    interesting = loaded or any(d in ("self-signed", "cycle2", "cycle3", "dangling-signer",
                                      "dangling-target") for d in c.get("defects", []))
    return Out(labels, interesting)


REQUIRED_LABELS = {t: ["near-miss-reference", "loaded", "loaded-with-targets",
                       "some-target-valid", "round-trip",
                       "kind:genuine-v1", "kind:genuine-v2", "version:1", "version:2"] +
                   ["shape:" + x for x in V2_SHAPES if x != "other-target"] +
                   ["shape:other-target|known-finding-hit"] +
                   ["defect:" + d for d in DEFECTS] for t in ("quick", "thorough")}


def gate(tier, labels, evaluations):
    msgs = []
    if labels.get("loaded", 0) < 0.25 * evaluations:
        msgs.append("only %d of %d documents load (< 25%%)" % (labels.get("loaded", 0),
                                                               evaluations))
    if labels.get("loaded-with-targets", 0) < 0.10 * evaluations:
        msgs.append("only %d of %d documents load with targets (< 10%%)" % (
            labels.get("loaded-with-targets", 0), evaluations))
    return msgs


def fuzz_seeds(tier):
    """A few small valid documents (v1 genuine, v2 genuine, a cyclic one)."""
    import hypothesis
    out = []
    from vlib.certs import V2Cert
    v2 = V2Cert({"root": 1, "leaf": 2, "att": 3, "inter": [4], "auth": b"a", "custom": b"c"})
    out.append(json.dumps(v2.to_dict()).encode())
    dev = __import__("vlib.attest", fromlist=["x"]).LedgerDevice(1, 2, 3)
    out.append(json.dumps(dev.certificate(b"HSM:UI:5.4" + bytes(99), b"\x01" * 32,
                                          b"HSM:SIGNER:5.4" + bytes(32), b"\x02" * 32
                                          ).to_dict()).encode())
    out.append(b'{"version":1,"targets":["ui"],"elements":[{"name":"ui","message":"aa",'
               b'"signature":"aa","signed_by":"signer"},{"name":"signer","message":"aa",'
               b'"signature":"aa","signed_by":"ui"}]}')
    return out


def fuzz_to_case(mode, data):
    if mode == "raw":
        return {"kind": "text", "text": data.decode("utf-8", "replace")}
    from vlib.fuzzdecode import decode
    return decode(cases("quick"), data)


NEAR_NAMES = ["", "r", "ro", "oo", "t", "root", "sgx", "_", "sgx_roo", "gx_root", "sgx_root",
              "ROOT", "Root", "root ", " root", "root\u0000", "sgx_root ", "rootroot", "device",
              "attestation", "ui", "quote", "quoting_enclave", "platform_ca"]


def reference_cases(tier, seed):
    """Genuine certificates of both versions in which ONE reference - an element's certifier or
    a target - is replaced by a name that is nearly right (a part of the root's name, another
    spelling of it, another element): the loader either reports an error or yields a
    certificate whose every target has a finite path to the root, as for any document."""
    from vlib import attest
    dev = attest.LedgerDevice(1, 2, 3)
    ui = attest.ui_message("5.4", bytes(32), b"\x02" + bytes(32), bytes(32), 1)
    v1 = dev.certificate(ui, bytes([1]) * 32, attest.legacy_signer_message("5.3", bytes(32)),
                         bytes([2]) * 32).to_dict()
    v2 = certs.V2Cert({"root": 1, "leaf": 2, "att": 3, "auth": b"a", "custom": b"c"}).to_dict()
    out = []
    for ver, doc in ((1, v1), (2, v2)):
        for i, e in enumerate(doc["elements"]):
            for nm in NEAR_NAMES:
                if nm == e["signed_by"]:
                    continue
                d = json.loads(json.dumps(doc))
                d["elements"][i]["signed_by"] = nm
                out.append({"kind": "text", "v": ver, "text": json.dumps(d),
                            "root_hex": dev.root_pub.hex(),
                            "what": "signer-of:%s" % e["name"]})
        for i, t in enumerate(doc["targets"]):
            for nm in NEAR_NAMES:
                if nm == t:
                    continue
                d = json.loads(json.dumps(doc))
                d["targets"][i] = nm
                out.append({"kind": "text", "v": ver, "text": json.dumps(d),
                            "root_hex": dev.root_pub.hex(), "what": "target"})
        # ... and in which ONE field of one element is text that is not empty yet decodes to
        # nothing (or to less than it should): load, verdict, save and reload as for any document
        for i, e in enumerate(doc["elements"]):
            for k in e:
                if k in ("name", "signed_by", "type"):
                    continue
                for val in (" ", "\n", "\r\n", "=", "====", "-", "", "00", e[k][:2], e[k] + " "):
                    d = json.loads(json.dumps(doc))
                    d["elements"][i][k] = val
                    out.append({"kind": "text", "v": ver, "text": json.dumps(d),
                                "root_hex": dev.root_pub.hex(),
                                "what": "field:%s.%s" % (e["name"], k)})
    return out


def run_reference_case(c):
    out = run_case(c)
    return Out(list(out.labels) + ["near-miss-reference"], True)


def stages(tier):
    from vlib.runner import FuzzStage, EnumStage
    return [HypStage("documents", lambda t: cases(t), run_case,
                     {"quick": 400, "thorough": 15000},
                     budget_s={"quick": 300, "thorough": 1200}),
            EnumStage("near-miss-references", reference_cases, run_reference_case,
                      exhaustive={"quick": True, "thorough": True},
                      budget_s={"quick": 180, "thorough": 60}),
            FuzzStage("fuzz", "C16", [("raw", False), ("raw", True), ("hyp", False)],
                      {"quick": 3000, "thorough": 60000}, run_case, fuzz_to_case, fuzz_seeds,
                      budget_s={"quick": 45, "thorough": 600}, max_len=6000,
                      tokens=['"version"', '"targets"', '"elements"', '"name"', '"signed_by"',
                              '"message"', '"signature"', '"tweak"', '"type"', '"root"',
                              '"sgx_root"', '"ui"', '"signer"', '"device"', '"attestation"',
                              '"x509_pem"', '"sgx_quote"', '"sgx_attestation_key"', '"key"',
                              '"auth_data"', '"custom_data"', ":1", ":2"])]
