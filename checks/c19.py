"""C19 - app hashing and one-time signing bind to the application's actual code."""
import contextlib
import hashlib
import io
import os
import shutil
import sys
import tempfile

from hypothesis import strategies as st

from vlib.core import Violation, Out, HarnessError
from vlib.runner import HypStage
from vlib import env, ihex

env.prepare()
import ecdsa                                   # noqa: E402
import secp256k1 as ec                         # noqa: E402
import signapp                                 # noqa: E402
import signonetime                             # noqa: E402
from admin.ledger_utils import compute_app_hash   # noqa: E402

ID = "C19"
LEVEL = "exploration"
RULE = ("Hypothesis-generated Intel-HEX images: 1..8 disjoint data areas of 1..3000 bytes over "
        "one or several 64 KiB zones with gaps (including areas crossing a zone boundary), "
        "written with per-record lengths 1..255, areas in or out of address order, zone records "
        "re-emitted or not, optional start-address record, LF or CRLF; 1..4 images per one-time "
        "signing run, two runs; authorization messages of all images written to one output path; "
        "non-trivial = image with >= 2 areas or written out of address "
        "order; distinct by case fingerprint")
ASSUMPTIONS = [
    "expected hash = SHA-256 over the harness's own area list in address order; files are "
    "produced by the harness's Intel-HEX writer (vlib/ihex.py)",
    "signatures are verified with libsecp256k1 after low-S normalisation (the tools sign with the "
    "pure-Python ecdsa package, which does not normalise)",
]
REQUIRED_LABELS = {t: ["areas>=2", "out-of-order", "zone-crossing", "multi-zone", "images>=2",
                       "crlf", "start-record", "keys-observed", "full-zone-area", "layout:same-name"]
                   for t in ("quick", "thorough")}


@st.composite
def image(draw):
    n = draw(st.integers(1, 8))
    base = draw(st.sampled_from([0x0, 0xC0D00000, 0x00010000 - 40, 0xC0D0FF00, 0x20000000]))
    areas = []
    pos = base
    for _ in range(n):
        gap = draw(st.one_of(st.integers(0, 64), st.sampled_from([0, 1, 0xFFFF, 0x10000, 70000])))
        if areas and gap == 0:
            gap = 1 if draw(st.booleans()) else 0
        start = pos + gap
        ln = draw(st.one_of(st.integers(1, 64), st.integers(1, 3000)))
        if draw(st.integers(0, 24)) == 0:
            # code that fills whole 64 KiB zones (or just misses doing so)
            ln = draw(st.sampled_from([0x10000, 0x10000 - 1, 0x10000 + 1, 0x20000, 70000,
                                       0x10000 - (start & 0xFFFF) or 0x10000,
                                       0x20000 - (start & 0xFFFF)]))
        seedb = draw(st.binary(min_size=1, max_size=16))
        data = (seedb * (ln // len(seedb) + 1))[:ln]
        areas.append([start, data])
        pos = start + ln
    big = any(len(x) > 8000 for _, x in areas)
    return {"areas": areas,
            "reclens": draw(st.lists(st.integers(16 if big else 1, 255), min_size=1, max_size=8)),
            "order": draw(st.permutations(list(range(n)))),
            "reemit": draw(st.booleans()),
            "start": draw(st.one_of(st.none(), st.integers(0, 2 ** 32 - 1))),
            "start_first": draw(st.booleans()),
            "eol": draw(st.sampled_from(["\n", "\n", "\r\n"]))}


@st.composite
def cases(draw, tier):
    return {"images": draw(st.lists(image(), min_size=1, max_size=4)),
            # how the images lie on disk: app0.hex, app1.hex ... side by side, or one app.hex
            # per directory (as a build tree of several applications has them)
            "layout": draw(st.sampled_from(["flat", "flat", "same-name"]))}


_TMP = {}


def workdir():
    pid = os.getpid()
    if pid not in _TMP:
        _TMP[pid] = tempfile.mkdtemp(prefix="verif-c19-")
        import atexit
        atexit.register(shutil.rmtree, _TMP[pid], True)
    d = _TMP[pid]
    for f in os.listdir(d):
        q = os.path.join(d, f)
        if os.path.isdir(q) and not os.path.islink(q):
            shutil.rmtree(q)
        else:
            os.unlink(q)
    return d


def run_main(mod, argv):
    out = io.StringIO()
    saved = sys.argv
    sys.argv = argv
    code = None
    try:
        with contextlib.redirect_stdout(out):
            try:
                mod.main()
            except SystemExit as e:
                code = e.code
    finally:
        sys.argv = saved
    return code, out.getvalue()


def expected_hash(img):
    return hashlib.sha256(b"".join(d for a, d in sorted((a, d) for a, d in img["areas"]))
                          ).digest()


def verify_libsecp(pub_bytes, digest, sig_der):
    pub = ec.PublicKey(pub_bytes, raw=True)
    sig = pub.ecdsa_deserialize(sig_der)
    _, sig = pub.ecdsa_signature_normalize(sig)
    return pub.ecdsa_verify(digest, sig, raw=True)


def snapshot(d):
    out = {}
    for root, _, files in os.walk(d):
        for f in files:
            p = os.path.join(root, f)
            # by content, not by time stamp: where the file system's clock ticks every few
            # milliseconds only, a file rewritten at once with as many bytes looks untouched
            with open(p, "rb") as fh:
                out[os.path.abspath(p)] = hashlib.sha256(fh.read()).digest()
    return out


def one_time_run(d, paths, tag):
    """Runs the tool with the working directory inside the (otherwise empty) scratch directory
    and reports which files it created or changed there, however it wrote them."""
    captured = {}
    orig_generate = ecdsa.SigningKey.generate

    def note(sk):
        ks = captured.setdefault("keys", [])
        if all(sk.to_string() != x.to_string() for x in ks):
            ks.append(sk)

    def generate(*a, **k):
        sk = orig_generate(*a, **k)
        note(sk)
        return sk
    ecdsa.SigningKey.generate = generate
    # however the key came to be, it is seen when it signs
    sign_methods = ["sign", "sign_deterministic", "sign_digest", "sign_digest_deterministic",
                    "sign_number"]
    orig_sign = {m: getattr(ecdsa.SigningKey, m) for m in sign_methods}

    def wrap(m):
        def signing(self, *a, **k):
            note(self)
            return orig_sign[m](self, *a, **k)
        return signing
    for m in sign_methods:
        setattr(ecdsa.SigningKey, m, wrap(m))
    pub_path = os.path.join(d, "pub-%s.txt" % tag)
    before = snapshot(d)
    cwd = os.getcwd()
    os.chdir(d)
    err = io.StringIO()
    try:
        # the documented switches that do not change what is to be done: verbose output (every
        # other run), blanks around the comma-separated paths
        extra = ["-v"] if str(tag) == "2" or len(paths) % 2 == 0 else []
        with contextlib.redirect_stderr(err):
            code, out = run_main(signonetime, ["signonetime.py", "-a",
                                               (" , " if extra else ",").join(paths), "-p",
                                               pub_path] + extra)
    finally:
        os.chdir(cwd)
        ecdsa.SigningKey.generate = orig_generate
        for m in sign_methods:
            setattr(ecdsa.SigningKey, m, orig_sign[m])
    after = snapshot(d)
    written = sorted(p for p in after if before.get(p) != after[p])
    return code, out + err.getvalue(), written, captured.get("keys", []), pub_path


def secret_forms(sk):
    import base64
    raw = sk.to_string()
    n = int.from_bytes(raw, "big")
    forms = [raw, raw.hex().encode(), raw.hex().upper().encode(), str(n).encode(),
             base64.b64encode(raw), base64.b64encode(raw).rstrip(b"="),
             raw.lstrip(b"\x00").hex().encode(), ("%x" % n).encode()]
    for fn in ("to_der", "to_pem"):
        try:
            v = getattr(sk, fn)()
            forms.append(v if isinstance(v, bytes) else v.encode())
        except Exception:
            pass
    return [f for f in forms if len(f) >= 16]


def run_case(c):
    d = workdir()
    labels = ["layout:" + c.get("layout", "flat")] if len(c["images"]) >= 2 else []
    paths, hashes = [], []
    for i, img in enumerate(c["images"]):
        text = ihex.write([(a, bytes(x)) for a, x in img["areas"]], img["reclens"], img["order"],
                          img["reemit"], img["start"], img["eol"], img["start_first"])
        if c.get("layout") == "same-name":
            os.makedirs(os.path.join(d, "img%d" % i, "bin"), exist_ok=True)
            p = os.path.join(d, "img%d" % i, "bin", "app.hex")
        else:
            p = os.path.join(d, "app%d.hex" % i)
        with open(p, "w", newline="") as f:
            f.write(text)
        want = expected_hash(img)
        got = compute_app_hash(p)
        if got != want:
            raise Violation("app-hash", "image %d: tooling reports %s, SHA-256 over the data "
                            "areas in address order is %s" % (i, got.hex(), want.hex()))
        code, out = run_main(signapp, ["signapp.py", "hash", "-a", p])
        if code != 0 or ("Computed hash: %s" % want.hex()) not in out:
            raise Violation("signapp-hash-output", "exit %r output %r, expected hash %s" % (
                code, out[-300:], want.hex()))
        paths.append(p)
        hashes.append(want)
        if len(img["areas"]) >= 2:
            labels.append("areas>=2")
        if list(img["order"]) != sorted(range(len(img["areas"])),
                                        key=lambda j: img["areas"][j][0]):
            labels.append("out-of-order")
        if any((a >> 16) != ((a + len(x) - 1) >> 16) for a, x in img["areas"]):
            labels.append("zone-crossing")
        if len({a >> 16 for a, x in img["areas"]}) >= 2:
            labels.append("multi-zone")
        if img["eol"] == "\r\n":
            labels.append("crlf")
        if any(len(x) >= 0x10000 for a, x in img["areas"]):
            labels.append("full-zone-area")
        if img["start"] is not None:
            labels.append("start-record")
    if len(paths) >= 2:
        labels.append("images>=2")
    # the hash embedded in authorization messages follows the image given, also when the output
    # file already holds an authorization written for another image
    import json as _json
    auth_path = os.path.join(d, "authorization.json")
    for i, (p, hsh) in enumerate(zip(paths, hashes)):
        code, out = run_main(signapp, ["signapp.py", "message", "-a", p, "-i", str(i + 1), "-o",
                                       auth_path])
        if code != 0:
            raise Violation("signapp-message-failed", "image %d: exit %r: %s" % (i, code,
                                                                               out[-300:]))
        doc = _json.load(open(auth_path))
        if doc.get("signer") != {"hash": hsh.hex(), "iteration": i + 1}:
            raise Violation("authorization-embeds-other-hash", "image %d hashes to %s, the "
                            "authorization written for it holds %r" % (i, hsh.hex(),
                                                                       doc.get("signer")))
        code, out = run_main(signapp, ["signapp.py", "message", "-a", p, "-i", str(i + 1)])
        if code != 0 or ("RSK_powHSM_signer_%s_iteration_%d" % (hsh.hex(), i + 1)) not in out:
            raise Violation("authorization-message-text", "image %d: %r" % (i, out[-300:]))
    pubs = []
    for run in (1, 2):
        for j, p in enumerate(paths):
            # what an earlier build left behind stays where it is: the signature file of the
            # first run, or (every other image, first run) a longer left-over file
            if run == 1 and j % 2 == 0:
                with open(p + ".sig", "wb") as f:
                    f.write(b"30" + b"ab" * 150)
        code, out, written, keys, pub_path = one_time_run(d, paths, run)
        if code != 0:
            raise Violation("signonetime-failed", "exit %r output %r" % (code, out[-300:]))
        want_written = sorted([os.path.abspath(pub_path)] +
                              [os.path.abspath(p + ".sig") for p in paths])
        if sorted(written) != want_written:
            raise Violation("signonetime-writes-other-files", "%r vs %r" % (sorted(written),
                                                                            want_written))
        labels.append("keys-observed" if keys else "keys-not-observed")
        if len(keys) > 1:
            raise Violation("several-keys-in-one-run", "%d signing keys were used in one run; "
                            "the images are to be signed by the single key written alongside"
                            % len(keys))
        with open(pub_path, "rb") as f:
            pub_hex = f.read()
        try:
            pub = bytes.fromhex(pub_hex.decode())
        except Exception:
            raise Violation("public-key-file-format", repr(pub_hex[:80]))
        if len(pub) != 65 or pub[0] != 4:
            raise Violation("public-key-not-single-uncompressed", pub.hex())
        blobs = {pub_path: pub_hex}
        for p, hsh in zip(paths, hashes):
            with open(p + ".sig", "rb") as f:
                sig_hex = f.read()
            blobs[p + ".sig"] = sig_hex
            try:
                sig = bytes.fromhex(sig_hex.decode())
                if len(sig) < 8 or sig[0] != 0x30 or sig[1] + 2 != len(sig):
                    raise ValueError("not one DER signature: %d bytes, header %s" % (
                        len(sig), sig[:2].hex()))
                ok = verify_libsecp(pub, hsh, sig)
            except Exception as e:
                raise Violation("signature-file-format", "%s: %r" % (e, sig_hex[:100]))
            if not ok:
                raise Violation("signature-does-not-verify", "%s.sig does not verify for the "
                                "image hash under the written public key" % os.path.basename(p))
        # every file of the scratch directory (whatever wrote it) and everything printed
        for path_ in snapshot(d):
            if path_ not in blobs:
                with open(path_, "rb") as f:
                    blobs[path_] = f.read()
        for name, blob in list(blobs.items()) + [("output", out.encode())]:
            for k in keys:
                for form in secret_forms(k):
                    if form in blob:
                        raise Violation("private-key-written", "the signing key appears in %s"
                                        % name)
        pubs.append(pub)
    if pubs[0] == pubs[1]:
        raise Violation("key-reused-across-runs", pubs[0].hex())
    return Out(labels, "areas>=2" in labels or "out-of-order" in labels)


def stages(tier):
    return [HypStage("images", lambda t: cases(t), run_case, {"quick": 120, "thorough": 3000},
                     budget_s={"quick": 300, "thorough": 1200})]
