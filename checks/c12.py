"""C12 - concurrent clients never interleave on the device."""
import copy
import itertools
import json
import os
import socket
import threading
import time

from hypothesis import strategies as st

from vlib.core import Violation, Out, HarnessError
from vlib.runner import HypStage
from vlib import mw, refs

ID = "C12"
LEVEL = "exploration"
RULE = ("two slow-device schedules (exchanges of 0.6-1.4 s adding up to more than the 10 s link time-out) and Hypothesis-generated schedules: 2..16 client threads with scripts of 1..5 mixed "
        "multi-APDU requests (advance batches of 2 or of 110 blocks whose blocks are other clients' "
        "brothers), start offsets and per-exchange device-side delays, against the real "
        "TCPServer over real sockets; non-trivial = run in which >= 2 multi-APDU requests of "
        "different clients were in flight at the same time (client-side timestamps); distinct by "
        "schedule fingerprint")
ASSUMPTIONS = [
    "the OS scheduler is not controlled; device-side delays widen every window; the invariants "
    "hold for every schedule of a serial server, so a pass is never timing-dependent",
    "each request carries an extra top-level key (rid) the protocol ignores, used to tag exchanges",
]
REQUIRED_LABELS = {t: ["clients>=8", "overlap-in-flight", "request-line>64KiB", "link-faults", "req:advance", "req:sign_auth",
                       "req:sign_unauth", "req:sign_bad", "uiHb-refused-by-the-device", "req:state", "req:signerHb", "req:getPubKey", "req:uiHb",
                       "stop-path:hb-malformed-der", "stop-path:reconnect-into-ui-heartbeat",
                       "slow-client:Ledger", "slow-client:TCP", "slow-client:SGX"]
                   for t in ("quick", "thorough")}
KINDS = ["sign_unauth", "sign_auth", "advance", "state", "signerHb", "getPubKey", "uiHb",
         "sign_bad"]
UI_HB = {"ui_hash": b"\x88" * 32, "ui_pubkey": b"\x04" + b"\x66" * 64}
T = mw.nominal_requests()


@st.composite
def cases(draw, tier):
    n = draw(st.one_of(st.integers(2, 16), st.sampled_from([8, 12, 16])))
    clients = []
    for _ in range(n):
        clients.append({"offset_ms": draw(st.integers(0, 5)),
                        "script": draw(st.lists(st.sampled_from(KINDS), min_size=1, max_size=5))})
    faults = []
    if draw(st.integers(0, 2)) == 0:
        # link failures while several clients are connected (the repair happens in a request)
        # (a single one: a second failure could hit the repeated bring-up, where stopping is
        #  what C09 prescribes)
        faults = draw(st.lists(st.tuples(st.integers(0, 80), st.sampled_from(["read", "write"])),
                               min_size=1, max_size=1))
    if faults:
        # a link failure in the middle of a UI heartbeat leaves the device in the UI-heartbeat
        # application, where the repeated bring-up stops the manager (as C09 prescribes)
        for cl in clients:
            cl["script"] = ["signerHb" if k == "uiHb" else k for k in cl["script"]]
    advs = [[ci, j] for ci, cl in enumerate(clients) for j, k in enumerate(cl["script"])
            if k == "advance"]
    long_one = None
    if advs and not faults and draw(st.integers(0, 2)) == 0:
        long_one = draw(st.sampled_from(advs))
    hb_fault = None
    if not faults and any("uiHb" in cl["script"] for cl in clients) and \
            draw(st.integers(0, 1)) == 0:
        # the UI heartbeat application refuses one heartbeat (a status word at one of its
        # exchanges): that request fails, the device is back in the signer for everybody else
        hb_fault = [draw(st.integers(1, 5)), draw(st.sampled_from([0x6A99, 0x6B11, 0x6A01]))]
    return {"clients": clients, "faults": [list(f) for f in faults], "long": long_one,
            "hb_fault": hb_fault,
            "delays_us": draw(st.lists(st.integers(0, 3000), min_size=1, max_size=8))}


def make_request(kind, rid, ci, j, long_one=None):
    r = copy.deepcopy(T["sign_auth" if kind == "sign_bad" else kind])
    r["rid"] = rid
    if kind == "sign_unauth":
        r["message"]["hash"] = (bytes([ci, j]) * 16).hex()
        r["keyId"] = refs.UNAUTH_PATHS[(ci + j) % 4]
    elif kind == "signerHb":
        r["udValue"] = (bytes([ci, j]) * 8).hex()
    elif kind == "uiHb":
        r["udValue"] = (bytes([ci, j]) * 16).hex()
    elif kind == "getPubKey":
        r["keyId"] = refs.ALL_PATHS[(ci + j) % 6]
    elif kind == "sign_auth":
        r["message"]["input"] = ci * 256 + j
    elif kind == "sign_bad":
        # an authorized sign request whose transaction is cut short: refused (-102) without a
        # word to the device - the same text from every client, as a retrying client sends it
        r = copy.deepcopy(T["sign_auth"])
        r["rid"] = rid
        r["message"]["tx"] = mw.NOMINAL_TX[:-10]
    elif kind == "advance":
        # every request has blocks of its own, drawn from a small pool so that one client's
        # block is another client's brother; now and then a long batch (a request line of
        # more than 64 KiB)
        k = ci * 3 + j
        if long_one == [ci, j]:
            r["blocks"] = [mw.mkblock(1 + (k + d) % 200) for d in range(110)]
            r["brothers"] = [[] for _ in r["blocks"]]
        else:
            ids = [1 + (k + d) % 5 for d in range(4)]
            r["blocks"] = [mw.mkblock(ids[0]), mw.mkblock(ids[1])]
            r["brothers"] = [[mw.mkblock(ids[2])], [mw.mkblock(ids[3]), mw.mkblock(ids[0])]]
    return r


def run_case(c):
    """(wrapper) notes, at the standard library's accept call, which client ports the manager's
    listening socket(s) ever handed to the application."""
    import socketserver
    accepted = set()
    real_get = socketserver.TCPServer.get_request

    def noting_get(self):
        r = real_get(self)
        try:
            accepted.add(r[1][1])
        except Exception:   # noqa
            pass
        return r
    socketserver.TCPServer.get_request = noting_get
    try:
        return _run_case(c, accepted)
    finally:
        socketserver.TCPServer.get_request = real_get


def _run_case(c, accepted):
    socket.setdefaulttimeout(None)      # no process-wide socket state carried between cases
    w = mw.default_world()
    w.adv_plan = {"final": "total"}
    w.hb.update(UI_HB)      # the UI and the signer are two applications with a hash and key each
    cur = threading.local()
    lock = threading.Lock()
    state = {"inflight": 0, "overlaps": 0, "n": 0}
    delays = c["delays_us"]
    pid = os.getpid()

    def delay(dongle, apdu):
        with lock:
            state["inflight"] += 1
            if state["inflight"] > 1:
                state["overlaps"] += 1
            k = state["n"]
            state["n"] += 1
        try:
            d = delays[k % len(delays)]
            if d:
                time.sleep(d / 1e6)
        finally:
            with lock:
                state["inflight"] -= 1
    w.delay = delay
    w.tag = lambda: getattr(cur, "rid", None)
    faulty = bool(c.get("faults"))

    def sig_for(held):
        if "hash" in held:
            return refs.der_sig(held["hash"][:8], held["path"][5:9])
        return refs.der_sig(held["input_index"].to_bytes(4, "big"), b"\x01")
    w.sig_der = sig_for
    p = mw.stack(w, init=False)
    orig = p.handle_request

    seen = set()

    def tagged(req):
        cur.rid = req.get("rid") if isinstance(req, dict) else None
        seen.add(cur.rid)
        try:
            return orig(req)
        finally:
            cur.rid = None
    p.handle_request = tagged
    from checks.c03 import _free_server
    hosts = c.get("bind") or ["127.0.0.1"]
    if len(hosts) == 1:
        srv, t, result, port = _free_server(p)
    else:
        # a manager told to listen on several addresses (should the code accept such a
        # setting): all of them lead to the one device
        started = _bind_list_server(p, hosts)
        if started is None:
            return Out(["bind-list-not-served"], False)
        srv, t, result, port = started
    if c.get("manager_age_s"):
        # the manager has been up for a while before the clients arrive (whatever it does on a
        # timer of its own has had time to start doing it)
        time.sleep(c["manager_age_s"])
    mark = len(w.log)
    adv_mark = len(w.adv_rx)
    for ordinal, kind in c.get("faults", []):
        w.faults[w.nex + ordinal] = kind
    if c.get("hb_fault"):
        w.hb_fault = (True, c["hb_fault"][0], c["hb_fault"][1])
    results = {}
    errors = []
    retries = [0]
    client_errs = {}

    def client(ci, cl):
        time.sleep(cl["offset_ms"] / 1000.0)
        for j, kind in enumerate(cl["script"]):
            rid = "%d.%d" % (ci, j)
            req = make_request(kind, rid, ci, j, c.get("long"))
            line = json.dumps(req).encode() + b"\n"
            t0 = time.time()
            reply = None
            last = None
            for attempt in range(4):
                # only the connection attempt is repeated: once the request is on its way it is
                # never sent a second time (it might be executed twice)
                try:
                    s = socket.create_connection((hosts[ci % len(hosts)], port), timeout=60)
                except (ConnectionRefusedError, socket.timeout) as e:
                    retries[0] += 1
                    last = e
                    time.sleep(0.05)
                    continue
                err = None
                lport = s.getsockname()[1]
                try:
                    s.sendall(line)
                    f = s.makefile("rb")
                    reply = f.readline()
                except OSError as e:
                    last = err = e
                    reply = b""
                finally:
                    s.close()
                if reply == b"" and isinstance(err, ConnectionError) and \
                        lport not in accepted and rid not in seen:
                    # the connection was reset without the manager's accept() ever having
                    # returned it: with more clients connecting at once than the listen queue
                    # holds, the kernel (SYN cookies, accept queue full) may drop a connection
                    # whose request spans several segments. Nothing reached the application,
                    # so connecting again cannot execute anything twice. (A connection the
                    # manager did accept and then dropped is not retried.)
                    retries[0] += 1
                    reply = None
                    time.sleep(0.05)
                    t0 = time.time()
                    continue
                break
            t1 = time.time()
            if reply is None:
                errors.append("client %s got no connection: %r" % (rid, last))
                return
            results[rid] = (kind, req, reply, t0, t1)
            client_errs[rid] = (last, attempt, t1 - t0)
    ths = [threading.Thread(target=client, args=(i, cl), daemon=True)
           for i, cl in enumerate(c["clients"])]
    for x in ths:
        x.start()
    for x in ths:
        x.join(timeout=120)
    alive = [x for x in ths if x.is_alive()]
    try:
        srv.server.shutdown()
    except Exception:
        pass
    t.join(timeout=5)
    mw.check_sim(w)
    if alive:
        raise Violation("client-never-answered", "%d clients still waiting after 120 s" %
                        len(alive))
    if errors:
        raise Violation("client-no-connection", "; ".join(errors[:3]))
    total = sum(len(cl["script"]) for cl in c["clients"])
    if len(results) != total:
        raise HarnessError("lost client results")
    # --- invariant 1: no two exchanges overlap in time
    if state["overlaps"]:
        raise Violation("overlapping-exchanges", "%d device exchanges started while another "
                        "was in progress" % state["overlaps"])
    # --- invariant 2: one contiguous block per request
    tags = [e[3] for e in w.log[mark:] if e[0] == "apdu" and e[3] is not None]
    runs = [k for k, _ in itertools.groupby(tags)]
    if len(runs) != len(set(runs)):
        dup = [r for r in set(runs) if runs.count(r) > 1]
        raise Violation("interleaved-exchanges", "requests %s have APDUs of other requests "
                        "inside their block; run order %s" % (dup[:4], runs[:40]))
    # --- invariant 3: every request's block is in this process's log
    missing = [rid for rid in results if rid not in set(runs) and results[rid][0] != "sign_bad"]
    contacted = [rid for rid in results if rid in set(runs) and results[rid][0] == "sign_bad"]
    if contacted:
        raise Violation("exchanges-for-a-refused-request", "requests %s (transaction cut short) "
                        "have device exchanges; replies %r" % (
                            contacted[:4], [results[r][2][:80] for r in contacted[:2]]))
    if faulty:
        missing = []      # a request answered -905 during a failed repair sends no APDU
    if missing:
        raise Violation("exchanges-not-on-this-device", "requests %s were answered (%r) but "
                        "their exchanges are not in the device log of process %d" % (
                            missing[:5], (results[missing[0]][2][:80],
                                          client_errs.get(missing[0])), pid))
    # --- invariant 3b: what the device was given inside an advance request's block is that
    # request's blocks and brothers
    labels = []
    if not faulty:
        adv_rids = [r for r in runs if r in results and results[r][0] == "advance"]
        sessions = w.adv_rx[adv_mark:]
        if len(sessions) != len(adv_rids):
            raise Violation("advance-sessions", "%d advance requests, the device completed %d "
                            "block sessions" % (len(adv_rids), len(sessions)))
        for rid, rx in zip(adv_rids, sessions):
            req = results[rid][1]
            got = [bytes(it["buf"]).hex() for it in rx["blocks"]]
            if got != req["blocks"]:
                raise Violation("blocks-of-another-request", "%s: the device was given %d "
                                "blocks %s..., the request has %d" % (
                                    rid, len(got), [g[:8] for g in got[:4]], len(req["blocks"])))
            gotb = [sorted(bytes(x["buf"]).hex() for x in (it["brothers"] or []))
                    for it in rx["blocks"]]
            if gotb != [sorted(b) for b in req["brothers"]]:
                raise Violation("brothers-of-another-request", "%s: brothers given to the "
                                "device differ from the request's" % rid)
            if len(req["blocks"]) > 100:
                labels.append("request-line>64KiB")
    # --- invariant 4: every client got the reply to its own request
    hb_refused = []
    for rid, (kind, req, reply, t0, t1) in results.items():
        rep = mw.parse_reply(reply)
        if rep is None:
            raise Violation("bad-reply", "request %s (%s) answered %r" % (rid, kind, reply[:100]))
        labels.append("req:" + kind)
        ci, j = [int(x) for x in rid.split(".")]
        if faulty and rep["errorcode"] == -905:
            labels.append("device-error-reply")
            continue
        if kind == "sign_bad":
            if rep["errorcode"] != -102:
                raise Violation("reply-of-another-request", "%s: a transaction cut short was "
                                "answered %r" % (rid, rep))
            continue
        if kind == "uiHb" and c.get("hb_fault") and rep["errorcode"] in (-301, -905, -906) and \
                not hb_refused:
            hb_refused.append(rid)          # the one heartbeat the device refused
            labels.append("uiHb-refused-by-the-device")
            continue
        if rep["errorcode"] != 0:
            raise Violation("request-failed", "request %s (%s) -> %r" % (rid, kind, rep))
        if kind == "sign_unauth":
            want = {"r": bytes.fromhex(req["message"]["hash"])[:8].hex(),
                    "s": refs.path_bin(req["keyId"])[5:9].hex()}
            if rep.get("signature") != want:
                raise Violation("reply-of-another-request", "%s: signature %r, own request "
                                "implies %r" % (rid, rep.get("signature"), want))
        elif kind == "sign_auth":
            want = {"r": (ci * 256 + j).to_bytes(4, "big").hex(), "s": "01"}
            if rep.get("signature") != want:
                raise Violation("reply-of-another-request", "%s: %r vs %r" % (
                    rid, rep.get("signature"), want))
        elif kind in ("signerHb", "uiHb"):
            if not rep.get("message", "").endswith(req["udValue"]):
                raise Violation("reply-of-another-request", "%s: heartbeat message %r lacks own "
                                "udValue %s" % (rid, rep.get("message"), req["udValue"]))
            ui = kind == "uiHb"
            want_hash = (UI_HB["ui_hash"] if ui else w.hb["hash"]).hex()
            want_key = (UI_HB["ui_pubkey"] if ui else w.hb["pubkey"]).hex()
            if rep.get("tweak") != want_hash or rep.get("pubKey") != want_key:
                raise Violation("reply-of-another-request", "%s: %s heartbeat carries hash %r "
                                "and key %r...; the application asked holds %r and %r..." % (
                                    rid, "UI" if ui else "signer", rep.get("tweak"),
                                    str(rep.get("pubKey"))[:20], want_hash, want_key[:20]))
        elif kind == "getPubKey":
            if rep.get("pubKey") != w.pubkeys[refs.path_bin(req["keyId"])].hex():
                raise Violation("reply-of-another-request", "%s: wrong public key" % rid)
    # non-triviality: two multi-APDU requests of different clients in flight at the same time
    multi = [(rid.split(".")[0], t0, t1) for rid, (kind, _, _, t0, t1) in results.items()
             if kind in ("sign_auth", "advance", "state", "signerHb", "uiHb")]
    overlap = False
    for a, b in itertools.combinations(multi, 2):
        if a[0] != b[0] and a[1] < b[2] and b[1] < a[2]:
            overlap = True
            break
    if overlap:
        labels.append("overlap-in-flight")
    if len(c["clients"]) >= 8:
        labels.append("clients>=8")
    if faulty:
        labels.append("link-faults")
    # exchanges made outside any request (e.g. by a helper thread) while requests are served
    # exchanges made outside any request (e.g. by a helper thread): inside the block of a
    # request they break its contiguity; between two blocks they do not
    seq = [e[3] for e in w.log[mark:] if e[0] == "apdu"]
    first_at, last_at = {}, {}
    for k, tg in enumerate(seq):
        if tg is not None:
            first_at.setdefault(tg, k)
            last_at[tg] = k
    inside = [k for k, tg in enumerate(seq) if tg is None and
              any(first_at[r] < k < last_at[r] for r in first_at)]
    if inside:
        raise Violation("exchange-inside-another-requests-block", "%d device exchanges made by "
                        "a thread that is not serving a request fall inside the block of a "
                        "request" % len(inside))
    if any(tg is None for tg in seq):
        labels.append("exchanges-between-blocks")
    if retries[0]:
        labels.append("connect-retries")
    return Out(labels, overlap)


def _bind_list_server(p, hosts):
    from comm.server import TCPServer
    probe = socket.socket()
    probe.bind(("127.0.0.1", 0))
    port = probe.getsockname()[1]
    probe.close()
    srv = TCPServer(",".join(hosts), port, p)
    result = {}

    def target():
        try:
            srv.run()
            result["end"] = "returned"
        except BaseException as e:   # noqa
            result["end"] = "raised %s" % type(e).__name__
    t = threading.Thread(target=target, daemon=True)
    t.start()
    deadline = time.time() + 5
    up = set()
    while time.time() < deadline and t.is_alive() and len(up) < len(hosts):
        for h in hosts:
            if h in up:
                continue
            try:
                socket.create_connection((h, port), timeout=1).close()
                up.add(h)
            except OSError:
                pass
        time.sleep(0.01)
    if len(up) == len(hosts):
        return srv, t, result, port
    try:
        if srv.server is not None:
            srv.server.shutdown()
    except Exception:
        pass
    return None


def bind_list_cases(tier, seed):
    sc = ["state", "sign_auth", "advance", "signerHb"]
    return [{"bind": ["127.0.0.1", "127.0.0.2"], "delays_us": [300, 0, 1500],
             "clients": [{"offset_ms": i % 2, "script": sc[i % 4:] + sc[:i % 4]}
                         for i in range(n)]} for n in (4, 8)]


def slow_client_cases(tier, seed):
    """A client that takes its time between connecting and sending (longer than any time-out
    the manager uses towards the DEVICE), on each kind of device link."""
    return [{"platform": plat, "wait_s": 11.5, "kind": k}
            for plat, k in (("Ledger", "getPubKey"), ("TCP", "sign_unauth"), ("SGX", "state"))]


def run_slow_client(c):
    import ledger.hsm2dongle as hd
    from ledger.hsm2dongle_tcp import HSM2DongleTCP
    from sgx.hsm2dongle import HSM2DongleSGX
    from ledger.protocol import HSM2ProtocolLedger
    from comm.platform import Platform
    from checks.c03 import _free_server
    socket.setdefaulttimeout(None)
    w = mw.default_world()
    w.adv_plan = {"final": "total"}
    w.sig_der = refs.der_sig(b"\x11" * 20, b"\x22" * 20)
    mw.install(w)
    plat = c["platform"]
    Platform.set({"Ledger": Platform.LEDGER, "SGX": Platform.SGX, "TCP": Platform.X86}[plat])
    try:
        dongle = {"Ledger": lambda: hd.HSM2Dongle(False),
                  "TCP": lambda: HSM2DongleTCP("h", 1, False),
                  "SGX": lambda: HSM2DongleSGX("h", 1, False)}[plat]()
        p = HSM2ProtocolLedger(None, dongle)
        srv, t, result, port = _free_server(p)
        try:
            req = make_request(c["kind"], "0.0", 7, 9)
            s = socket.create_connection(("127.0.0.1", port), timeout=60)
            s.settimeout(60)
            try:
                time.sleep(c["wait_s"])
                try:
                    s.sendall(json.dumps(req).encode() + b"\n")
                    reply = s.makefile("rb").readline()
                except OSError as e:
                    reply = b""
            finally:
                s.close()
            rep = mw.parse_reply(reply)
            if rep is None or rep["errorcode"] != 0:
                raise Violation("slow-client-not-answered", "%s link: a client that sent its "
                                "request %.1f s after connecting got %r" % (
                                    plat, c["wait_s"], reply[:100]))
        finally:
            try:
                srv.server.shutdown()
            except Exception:
                pass
            t.join(timeout=5)
    finally:
        Platform.set(Platform.LEDGER)
        socket.setdefaulttimeout(None)
    mw.check_sim(w)
    return Out(["slow-client:" + plat], True)


def stop_path_cases(tier, seed):
    return [{"first": k, "fatal": f} for k in ("sign_unauth", "getPubKey", "state")
            for f in ("hb-malformed-der", "reconnect-into-ui-heartbeat")]


def run_stop_path(c):
    """Requests served one after another over TCP, the last of which ends on a path where the
    manager stops. Whatever that client is sent, it must not be the reply computed for an
    earlier client."""
    from checks.c03 import _free_server, _talk
    from vlib.device import UIHB
    w = mw.default_world()
    w.adv_plan = {"final": "total"}
    w.sig_der = refs.der_sig(b"\x11" * 20, b"\x22" * 20)
    p = mw.stack(w, init=False)
    srv, t, result, port = _free_server(p)
    try:
        first = make_request(c["first"], "0.0", 3, 4)
        rep1 = _talk(port, json.dumps(first).encode())
        r1 = mw.parse_reply(rep1)
        if r1 is None or r1["errorcode"] != 0:
            return Out(["stop-path-precondition-not-met"], False)
        if c["fatal"] == "hb-malformed-der":
            w.hb["sig"] = b"\x30"          # the device hands out a truncated signature
            last = make_request("signerHb", "1.0", 5, 6)
        else:
            # the link is reported broken (as a failed exchange would), and the device comes
            # back outside the signer: the repair inside the next request stops the manager
            pp = getattr(p, "protocol_v2", p)
            if hasattr(pp, "report_comm_issue"):
                pp.report_comm_issue()
            else:
                w.faults[w.nex] = "read"
                mid = _talk(port, json.dumps(make_request("getPubKey", "1.0", 1, 1)).encode())
                if mw.parse_reply(mid) is None:
                    return Out(["stop-path-precondition-not-met"], False)
                # one more content-bearing reply before the fatal request is not possible
                # without repairing the link: compare with the last content-bearing one
            w.mode = UIHB
            last = make_request("state", "2.0", 5, 6)
        try:
            rep2 = _talk(port, json.dumps(last).encode())
        except OSError as e:
            rep2 = b""
        mw.check_sim(w)
        try:
            o2 = json.loads(rep2.decode()) if rep2.strip() else {}
        except Exception:
            o2 = None
        o1 = json.loads(rep1.decode())
        labels = ["stop-path:" + c["fatal"]]
        if not [k for k in o1 if k != "errorcode"]:
            raise HarnessError("the reply before the fatal request carries no field to compare")
        if isinstance(o2, dict):
            foreign = [k for k in o2 if k != "errorcode" and k in o1 and o2[k] == o1[k]]
            if foreign:
                raise Violation("reply-of-another-request", "the request that stopped the "
                                "manager (%s after %s) was answered with fields %r of the "
                                "previous client's reply %s" % (c["fatal"], c["first"], foreign,
                                                                rep1[:160]))
    finally:
        try:
            srv.server.shutdown()
        except Exception:
            pass
        t.join(timeout=5)
    return Out(labels, True)


def stall_cases(tier, seed):
    """A slow device: one multi-APDU request whose exchanges each stay under the 10 s exchange
    time-out of the device link but add up to more than it, with another client arriving in the
    meantime."""
    return [
        {"clients": [{"offset_ms": 0, "script": ["state"]},
                     {"offset_ms": 1000, "script": ["getPubKey", "sign_unauth"]}],
         "delays_us": [1400000]},
        {"clients": [{"offset_ms": 0, "script": ["advance"]},
                     {"offset_ms": 500, "script": ["state"]},
                     {"offset_ms": 900, "script": ["signerHb"]}],
         "delays_us": [600000]},
        # a UI heartbeat the device refuses, and a refused request repeated, among other
        # clients' requests (fixed schedules: the generated ones have them by chance)
        {"clients": [{"offset_ms": 0, "script": ["uiHb", "state"]}] +
                    [{"offset_ms": 1 + i, "script": ["sign_unauth", "sign_auth", "state"]}
                     for i in range(4)],
         "hb_fault": [3, 0x6A99], "delays_us": [2000]},
        {"clients": [{"offset_ms": 0, "script": ["sign_auth", "sign_bad", "sign_bad", "state"]},
                     {"offset_ms": 1, "script": ["sign_bad", "getPubKey", "sign_bad"]},
                     {"offset_ms": 2, "script": ["sign_bad", "sign_bad", "sign_unauth"]}],
         "delays_us": [500]},
        # a manager that has been running for half a minute, then busy for ten seconds
        {"manager_age_s": 27, "delays_us": [25000],
         "clients": [{"offset_ms": i, "script": ["state", "sign_auth", "state", "signerHb",
                                                 "state"]} for i in range(6)]},
    ]


def stages(tier):
    from vlib.runner import EnumStage
    return [EnumStage("stop-path", stop_path_cases, run_stop_path,
                      exhaustive={"quick": True, "thorough": True},
                      budget_s={"quick": 180, "thorough": 60}, workers=6),
            EnumStage("bind-list", bind_list_cases, run_case,
                      exhaustive={"quick": True, "thorough": True},
                      budget_s={"quick": 180, "thorough": 60}, workers=2),
            EnumStage("slow-client", slow_client_cases, run_slow_client,
                      exhaustive={"quick": True, "thorough": True},
                      budget_s={"quick": 270, "thorough": 90}, workers=3),
            EnumStage("slow-device", stall_cases, run_case,
                      exhaustive={"quick": True, "thorough": True},
                      budget_s={"quick": 450, "thorough": 150}, workers=3),
            HypStage("schedules", lambda t: cases(t), run_case, {"quick": 6, "thorough": 150},
                     budget_s={"quick": 270, "thorough": 1500}, shrink=False)]
