"""C04 - device outcomes map onto the result codes documented for each command."""
import json

from vlib.core import Violation, Out, HarnessError
from vlib.runner import EnumStage
from vlib import mw, spec, refs
from vlib.device import SIGNER, UIHB

ID = "C04"
LEVEL = "fault_enumeration"
RULE = ("(i) enumeration of cells (nominal request, exchange step, outcome) with outcome in all "
        "status words a transport can raise (65536 minus 0x9000 and 0x61xx) plus timeout, write "
        "error, read error and well-formed answers carrying an unexpected opcode; thorough = "
        "complete product, quick = every step x (named firmware status words, range edges, 256 "
        "seed-chosen others, all non-status outcomes); every cell with a non-nominal outcome is "
        "non-trivial; distinct = distinct cells; (ii) the quick cell set again, each cell preceded by "
        "one successful run of the same request on the same manager")
ASSUMPTIONS = [
    "status-word cause table transcribed from firmware bc_err.h / auth.h / err.h and "
    "docs/protocol.md, not from the middleware's tables",
    "faults are injected by the simulated transport as the exception shapes ledgerblue raises",
    "0x9000 and 0x61xx are never raised by any ledgerblue transport and are not injected",
]

NOMINAL = dict(mw.nominal_requests())
NOMINAL_V1 = mw.nominal_requests_v1()
REQS = {("v5", k): v for k, v in NOMINAL.items() if k != "version"}
REQS.update({("v1", k): v for k, v in NOMINAL_V1.items() if k != "version"})
# the same uiHeartbeat request met by a device that is ALREADY in UI-heartbeat mode (left there
# by an earlier attempt): the code takes another path through the command
REQS[("v5", "uiHb@ui")] = REQS[("v5", "uiHb")]
# advanceBlockchain for blocks that have no brothers at all
REQS[("v5", "advance@nobro")] = dict(REQS[("v5", "advance")],
                                     brothers=[[] for _ in REQS[("v5", "advance")]["blocks"]])
NAMES = sorted(REQS)
PLAIN_NAMES = [k for k in NAMES if "@" not in k[1]]      # for users that model follow-ups

DER = refs.der_sig(b"\x11" * 32, b"\x22" * 32)

# ---------------------------------------------------------------- step identification


def step_kind(apdu):
    cmd = apdu[1]
    op = apdu[2] if len(apdu) > 2 else None
    if cmd == 0x02:
        return {1: "sign:path", 2: "sign:btc", 4: "sign:receipt", 8: "sign:merkle"}.get(
            op & 0xF, "sign:?")
    if cmd == 0x10:
        return {2: "adv:init", 3: "adv:meta", 4: "adv:chunk", 7: "adv:brolist", 8: "adv:brometa",
                9: "adv:brochunk"}.get(op, "adv:?")
    if cmd == 0x30:
        return {2: "anc:init", 3: "anc:meta", 4: "anc:chunk"}.get(op, "anc:?")
    if cmd == 0x04:
        return "pubkey"
    if cmd == 0x20:
        return "state"
    if cmd == 0x21:
        return "reset"
    if cmd == 0x11:
        return "params"
    if cmd == 0x60:
        return "hb:%d" % op
    if cmd == 0x43:
        return "mode"
    if cmd == 0xFF:
        return "exit"
    return "other:%02x" % cmd


def fresh(key):
    w = mw.default_world()
    w.adv_plan = {"final": "total"}
    w.sig_der = DER
    p = mw.stack(w, v1=(key[0] == "v1"))
    if key[1].endswith("@ui"):
        w.mode = UIHB
    return w, p


_PLAN = {}


def plan():
    if _PLAN:
        return _PLAN
    for key in NAMES:
        w, p = fresh(key)
        n0, mark = w.nex, len(w.log)
        try:
            rep = mw.request(p, REQS[key])
        except Exception as e:     # noqa - the request escaped the protocol object
            rep = {"errorcode": "%s: %s" % (type(e).__name__, str(e)[:120])}
        if rep.get("errorcode") != 0:
            # the device did everything right (the simulation is checked against the unchanged
            # tree by every run): success is not reported
            _PLAN.clear()
            raise Violation("nominal-not-success:%s" % REQS[key]["command"],
                            "%s/%s on a device that answers every exchange successfully -> %r"
                            % (key[0], key[1], rep))
        _PLAN[key] = [step_kind(a) for a in w.apdus(mark)]
        if len(_PLAN[key]) != w.nex - n0:
            raise HarnessError("exchange count mismatch for %s" % (key,))
    return _PLAN


# ---------------------------------------------------------------- cause table (from firmware)

BLOCK_FMT_ADV = {0x6B88, 0x6B89, 0x6B8A, 0x6B8B, 0x6B8D, 0x6B8E, 0x6B8F, 0x6B90, 0x6B91, 0x6B93,
                 0x6B97, 0x6B98, 0x6B99}
POW = {0x6B94, 0x6B95, 0x6B96, 0x6B9D}
BLOCK_FMT_ANC = {0x6B88, 0x6B89, 0x6B8A, 0x6B8B, 0x6B8C, 0x6B8D, 0x6B90, 0x6B93}


def named_cause(kind, sw, authorized):
    """Set of codes the docs name for status word sw at step kind, or None if no named cause."""
    if kind == "sign:path":
        if sw == 0x6A8F:
            return {-103}
        if sw == 0x6A90 and not authorized:
            return {-103}
        return None
    if kind == "sign:btc":
        return {-102} if sw in (0x6A88, 0x6A8D, 0x6A8E, 0x6A97, 0x6A98) else None
    if kind == "sign:receipt":
        return {-101} if sw in (0x6A8A, 0x6A8B) else None
    if kind == "sign:merkle":
        return {-101} if sw in (0x6A92, 0x6A94, 0x6A95, 0x6A96) else None
    if kind == "pubkey":
        return {-103} if sw == 0x6A8F else None
    if kind in ("adv:chunk", "adv:brochunk"):
        if sw == 0x6B9A:
            return {-201}
        if sw in POW:
            return {-202}
        if sw in (0x6B90, 0x6B91, 0x6B92, 0x6B97, 0x6B98):
            # BTC header / merkle proof / coinbase txn of the merge-mining proof invalid or
            # too long: 'PoW validation failed' or 'invalid input blocks', docs do not say
            return {-202, -204}
        if sw in BLOCK_FMT_ADV:
            return {-204}
        if sw in (0x6B9E, 0x6B9F, 0x6BA0, 0x6BA1):
            return {-205}        # the four 'brothers' causes, at whatever step they are reported
        return None
    if kind == "adv:brolist":
        return {-205} if sw == 0x6B9E else None
    if kind == "anc:chunk":
        if sw == 0x6B9A:
            return {-201}
        if sw == 0x6B9C:
            return {-203}
        if sw in BLOCK_FMT_ANC:
            return {-204}
        return None
    return None


NAMED_SWS = sorted({0x6A87, 0x6A88, 0x6A89, 0x6A8A, 0x6A8B, 0x6A8C, 0x6A8D, 0x6A8E, 0x6A8F,
                    0x6A90, 0x6A91, 0x6A92, 0x6A93, 0x6A94, 0x6A95, 0x6A96, 0x6A97, 0x6A98,
                    0x6A99, 0x6B10, 0x6B11, 0x69A0, 0x6A01, 0x6A02, 0x6BEE, 0x6BEF, 0x6BF0,
                    0x6BF1, 0x6BF2, 0x6E11} | set(range(0x6B87, 0x6BA2)))
EDGES = [0x0000, 0x6100 - 1, 0x6200, 0x699F, 0x69A0, 0x6BFF, 0x6C00, 0x6CFF, 0x6D00, 0x6D01,
         0x6E00, 0x6F00, 0x6FFF, 0x8FFF, 0x9001, 0xFFFF]

SUCCESS_OPS = {"sign": {0: 0x81}, "adv": {0: 0x06, 1: 0x05}, "anc": {0: 0x05}, "reset": {0: 0x02}}


def op_outcomes(kind):
    fam = kind.split(":")[0]
    if fam == "sign":
        ops = [0x81, 0x01, 0x02, 0x04, 0x08, 0x00, 0xFF]
    elif fam == "adv":
        ops = [0x02, 0x03, 0x04, 0x05, 0x06, 0x07, 0x08, 0x09, 0x00, 0xFF]
    elif fam == "anc":
        ops = [0x02, 0x03, 0x04, 0x05, 0x06, 0x00, 0xFF]
    elif fam in ("reset", "state"):
        ops = [0x01, 0x02, 0x03, 0xFF]
    else:
        ops = [0x00, 0xFF]
    return [["op", o] for o in ops]


def op_answer_data(kind, op):
    """Data that makes the injected answer well-formed for its opcode (the device keeps to the
    framing of its protocol even when it answers with an opcode the host does not expect)."""
    fam = kind.split(":")[0]
    if fam == "sign":
        if op in (0x02, 0x04, 0x08):
            return b"\x20"
        if op == 0x81:
            return DER
        return b""
    if fam in ("adv", "anc"):
        if op in (0x04, 0x09):
            return b"\x20"
        return b""
    return None     # keep the nominal data


def all_sws():
    return [sw for sw in range(0x10000) if sw != 0x9000 and (sw & 0xFF00) != 0x6100]


def _guard(builder):
    """Case builders need the plan of nominal exchanges; when the nominal requests themselves do
    not succeed any more, the builder yields one case that reports just that."""
    def build(tier, seed):
        try:
            return builder(tier, seed)
        except Violation as v:
            return [{"m": "v5", "r": "getPubKey", "i": 0, "o": None,
                     "plan_violation": [v.sig, v.detail]}]
    return build


class Cells:
    """Lazy sequence of all cells of a tier."""

    def __init__(self, tier, seed):
        pl = plan()
        self.steps = [(key, i) for key in NAMES for i in range(len(pl[key]))]
        if tier == "thorough":
            self.sws = all_sws()
        else:
            import hashlib
            pool = all_sws()
            extra = []
            for j in range(256):
                h = hashlib.sha256(("%d:%d" % (seed, j)).encode()).digest()
                extra.append(pool[int.from_bytes(h[:4], "big") % len(pool)])
            self.sws = sorted(set(NAMED_SWS + EDGES + extra) - {0x9000})
        self.index = []      # (step_idx, offset) prefix sums
        self.sizes = []
        tot = 0
        for (key, i) in self.steps:
            n = len(self.sws) + 3 + len(op_outcomes(pl[key][i])) + 1
            self.sizes.append(n)
            self.index.append(tot)
            tot += n
        self.total = tot
        self.pl = pl

    def __len__(self):
        return self.total

    def __getitem__(self, idx):
        import bisect
        s = bisect.bisect_right(self.index, idx) - 1
        off = idx - self.index[s]
        key, i = self.steps[s]
        nsw = len(self.sws)
        if off < nsw:
            o = self.sws[off]
        elif off < nsw + 3:
            o = ["timeout", "write", "read"][off - nsw]
        elif off == self.sizes[s] - 1:
            o = None
        else:
            o = op_outcomes(self.pl[key][i])[off - nsw - 3]
        return {"m": key[0], "r": key[1], "i": i, "o": o}


def in_device_range(sw):
    return (0x69A0 <= sw <= 0x6BFF) or sw == 0x6D00


def run_case(c):
    if c.get("plan_violation"):
        raise Violation(*c["plan_violation"])
    key = (c["m"], c["r"])
    pl = plan()
    kinds = pl[key]
    i, o = c["i"], c["o"]
    kind = kinds[i]
    w, p = fresh(key)
    if c.get("warm"):
        # the same request was served successfully before on this manager: whatever it left
        # behind (caches, flags) must not change how the device's outcome is reported now
        pre, pexc = mw.serve_line(mw.handler(p), json.dumps(REQS[key]).encode())
        prep = mw.parse_reply(pre)
        if pexc is not None or prep is None or prep["errorcode"] != 0:
            raise Violation("warm-up-request-failed:%s" % REQS[key]["command"], "%r %r" % (
                pre[:100], pexc))
    if c.get("after"):
        # other requests, each with a device outcome of its own, were served before on this
        # manager: the code reported for THIS request reflects this request's outcome only
        for pre in c["after"]:
            pk = (pre["m"], pre["r"])
            w.faults[w.nex + pre["i"]] = pre["o"]
            mw.serve_line(mw.handler(p), json.dumps(REQS[pk]).encode())
            mw.check_sim(w)
            w.faults.clear()
    if key[1].endswith("@ui"):
        w.mode = UIHB           # whatever went before, the request meets the device in UI mode
    return judge(c, w, p, key, kinds)


def judge(c, w, p, key, kinds):
    i, o = c["i"], c["o"]
    kind = kinds[i]
    base = w.nex
    if isinstance(o, list):
        w.faults[base + i] = ("op", o[1], op_answer_data(kind, o[1]))
    elif o is not None:
        w.faults[base + i] = o
    h = mw.handler(p)
    line = json.dumps(REQS[key]).encode()
    out, exc = mw.serve_line(h, line)
    mw.check_sim(w)
    not_reached = o is not None and w.nex <= base + i
    if not_reached:
        # the request made fewer exchanges than planned (e.g. answered from what an earlier
        # run left behind): the outcome was never produced, the request counts as un-faulted
        w.faults.pop(base + i, None)
        o = None
    rep = mw.parse_reply(out)
    cmd = REQS[key]["command"]
    fam = kind.split(":")[0]
    where = "%s/%s step %d (%s) outcome %s" % (
        c["m"], c["r"], i, kind, hex(o) if isinstance(o, int) else o)
    labels = ["req:%s/%s" % key, "outcome:" + (
        "sw" if isinstance(o, int) else ("op" if isinstance(o, list) else str(o)))]
    if not_reached:
        labels.append("outcome-not-reached")

    # (4) an error status inside the device's own range never stops the manager
    if isinstance(o, int) and in_device_range(o) and exc is not None:
        raise Violation("shutdown-on-device-range-status:%s" % cmd,
                        "%s: handler raised %s (%s); output %r" % (where, type(exc).__name__,
                                                                   str(exc)[:200], out[:100]))
    # (1) a documented code, always
    if rep is None:
        raise Violation("no-usable-reply:%s" % cmd, "%s: output %r, handler raised %r" % (
            where, out[:100], exc))
    code = rep["errorcode"]
    if c["m"] == "v1":
        documented = spec.DOCUMENTED_V1
    else:
        documented = spec.DOCUMENTED[cmd] | spec.GENERIC
    if code not in documented:
        raise Violation("undocumented-code:%s:%d" % (cmd, code), "%s -> %r" % (where, rep))
    labels.append("code:%d" % code)

    # (2) success codes only when the device reported success, and always when it did
    last = w.last_answer
    success_ops = SUCCESS_OPS.get({"sign": "sign", "adv": "adv", "anc": "anc",
                                   "reset": "reset"}.get(fam))
    if o is None:
        if code != 0:
            raise Violation("nominal-not-success:%s" % cmd, "%s -> %r" % (where, rep))
    elif code in (0, 1):
        ok = False
        if c["r"].startswith("uiHb") and kind == "exit" and o in ("read", "write", "timeout"):
            ok = True     # the link is expected to drop there (see C11/C13); with a read
            #               error or a time-out the device has acted on the command
        elif success_ops is not None:
            # the device reported that success somewhere in this request (a manager may go on
            # with exchanges of its own afterwards, e.g. a read-only query for its log)
            ins = {"sign": 0x02, "adv": 0x10, "anc": 0x30, "reset": 0x21}[fam]
            ok = any(a is not None and len(a) > 2 and a[1] == ins and
                     a[2] == success_ops.get(code) for k_, a in w.answers if k_ >= base)
        elif last is not None and success_ops is None and isinstance(o, list):
            # commands without a success opcode: a well-formed answer counts. The answers to
            # the blockchain-state queries name the query they answer (hash / difficulty /
            # flags): an answer to another query is not the device reporting the datum asked
            # for. (Heartbeat answers carry an operation byte too, which the middleware has
            # never looked at; whether it must is not claimed.)
            ok = True
            if fam == "state":
                nominal = [e[3] for e in w.log if e[0] == "fault" and e[1] == "op" and
                           len(e) > 3]
                if nominal and len(nominal[-1]) > 2 and nominal[-1][2] != o[1]:
                    ok = False
        if not ok:
            raise Violation("success-code-without-device-success:%s" % cmd,
                            "%s -> %r although the device's last answer was %s" % (
                                where, rep, last.hex() if last else "a fault"))
        if c["r"] == "uiHb" and w.mode != SIGNER:
            raise Violation("uihb-success-not-in-signer", "%s -> %r, device mode %r" % (
                where, rep, w.mode))
    if isinstance(o, list) and fam in ("adv", "anc") and kind in ("adv:chunk", "adv:brochunk",
                                                                 "anc:chunk"):
        want = {v: k for k, v in success_ops.items()}.get(o[1])
        if want is not None and code != want:
            raise Violation("device-success-not-reported:%s" % cmd,
                            "%s: device answered success opcode %#x, reply %r" % (
                                where, o[1], rep))

    # (3) named causes
    if isinstance(o, int):
        authorized = c["r"] in ("sign_auth", "sign_segwit")
        named = named_cause(kind, o, authorized)
        if named is not None:
            if c["m"] == "v1":
                named = {-2}
            labels.append("named-cause")
            if code not in named:
                raise Violation("named-cause:%s:%#x->%d" % (kind, o, code),
                                "%s -> %r; the documentation names code %s for this cause" % (
                                    where, rep, sorted(named)))
    if c.get("warm"):
        labels.append("warm")
    if c.get("after"):
        labels.append("after-other-outcomes")
        if any(a["r"] != c["r"] for a in c["after"]):
            labels.append("after-another-command")
    return Out(labels, o is not None)


class WarmCells:
    """The same matrix restricted to the named / edge status words and the non-status
    outcomes, each cell preceded by one successful run of the same request."""

    def __init__(self, tier, seed):
        self.base = Cells("quick", seed)

    def __len__(self):
        return len(self.base)

    def __getitem__(self, i):
        c = dict(self.base[i])
        c["warm"] = True
        return c


SIG_SHAPES = [(1, 1), (31, 32), (32, 30), (33, 33), (20, 32), (32, 32), (8, 33)]


def success_shape_cells(tier, seed):
    """'...and always when it did so with a well-formed answer': successful answers carrying
    DER signatures of every legal shape (integers of 1..33 bytes, either sequence tag)."""
    return [{"m": k[0], "r": k[1], "rl": rl, "sl": sl, "first": first}
            for k in NAMES if k[1].startswith("sign") or "Hb" in k[1]
            for (rl, sl) in SIG_SHAPES for first in (0x30, 0x31)] + \
        [{"m": "v5", "r": r, "nbytes": n} for r in ("state", "params") for n in range(0, 37)]


def run_number_shape(c):
    """Successful answers carrying a difficulty of every width the device has (0..36 bytes,
    leading zeroes stripped by the device)."""
    key = (c["m"], c["r"])
    w, p = fresh(key)
    value = (1 << (8 * c["nbytes"])) - 1 if c["nbytes"] else 0
    if c["r"] == "state":
        w.difficulty = value
    else:
        w.params = w.params[:32] + value.to_bytes(36, "big") + w.params[68:]
    out, exc = mw.serve_line(mw.handler(p), json.dumps(REQS[key]).encode())
    mw.check_sim(w)
    rep_ = mw.parse_reply(out)
    where = "%s/%s, the device holds a difficulty of %d bytes" % (c["m"], c["r"], c["nbytes"])
    if exc is not None or rep_ is None:
        raise Violation("no-usable-reply:%s" % REQS[key]["command"], "%s: %r %r" % (
            where, out[:80], exc))
    if rep_["errorcode"] != 0:
        raise Violation("device-success-not-reported:%s" % REQS[key]["command"],
                        "%s -> %r" % (where, rep_))
    return Out(["success-shape", "number-shape", "req:%s/%s" % key], True)


def run_success_shape(c):
    if "nbytes" in c:
        return run_number_shape(c)
    key = (c["m"], c["r"])
    w, p = fresh(key)
    r = bytes([0x11] + [0x21] * (c["rl"] - 1))[:c["rl"]]
    s_ = bytes([0x12] + [0x22] * (c["sl"] - 1))[:c["sl"]]
    der = refs.der_sig(r, s_, c["first"])
    w.sig_der = der
    w.hb["sig"] = der
    w.hb["ui_sig"] = der
    out, exc = mw.serve_line(mw.handler(p), json.dumps(REQS[key]).encode())
    mw.check_sim(w)
    rep_ = mw.parse_reply(out)
    where = "%s/%s, device signs with r of %d and s of %d bytes (tag %#x)" % (
        c["m"], c["r"], c["rl"], c["sl"], c["first"])
    if exc is not None or rep_ is None:
        raise Violation("no-usable-reply:%s" % REQS[key]["command"], "%s: %r %r" % (
            where, out[:80], exc))
    if rep_["errorcode"] != 0 or rep_.get("signature") != {"r": r.hex(), "s": s_.hex()}:
        raise Violation("device-success-not-reported:%s" % REQS[key]["command"],
                        "%s -> %r" % (where, rep_))
    return Out(["success-shape", "req:%s/%s" % key], True)


def _named_cells(m="v5"):
    """(request, step, status word) for every status word with a documented cause."""
    pl = plan()
    out = []
    for key in NAMES:
        if key[0] != m:
            continue
        authorized = key[1] in ("sign_auth", "sign_segwit")
        seen = set()
        for i, kind in enumerate(pl[key]):
            if kind in seen:
                continue           # one step of each kind will do
            seen.add(kind)
            for sw in NAMED_SWS:
                if named_cause(kind, sw, authorized) is not None:
                    out.append({"m": key[0], "r": key[1], "i": i, "o": sw})
    return out


def cross_cells(tier, seed):
    """Every ordered pair of named-cause outcomes of two requests on one manager (the first is
    history, the second is judged), plus each named outcome after a successful run of every
    other request."""
    named = _named_cells()
    out = []
    for a in named:
        for b in named:
            if (a["r"], a["o"]) != (b["r"], b["o"]):
                c = dict(b)
                c["after"] = [a]
                out.append(c)
    return out


REQUIRED_LABELS = {t: ["warm", "after-another-command", "success-shape", "outcome:sw", "outcome:op", "outcome:timeout", "outcome:read",
                       "outcome:write", "outcome:None", "named-cause"] +
                   ["req:%s/%s" % k for k in NAMES] for t in ("quick", "thorough")}


def stages(tier):
    return [EnumStage("matrix", _guard(lambda t, s: Cells(t, s)), run_case,
                      exhaustive={"thorough": True},
                      budget_s={"quick": 450, "thorough": 2400}),
            EnumStage("well-formed-success-shapes", success_shape_cells, run_success_shape,
                      exhaustive={"quick": True, "thorough": True},
                      budget_s={"quick": 180, "thorough": 60}),
            EnumStage("after-other-outcomes", _guard(cross_cells), run_case,
                      exhaustive={"quick": True, "thorough": True},
                      budget_s={"quick": 180, "thorough": 600}),
            EnumStage("after-a-successful-run", _guard(lambda t, s: WarmCells(t, s)), run_case,
                      exhaustive={"quick": False, "thorough": False},
                      budget_s={"quick": 450, "thorough": 600})]
