"""C13 - query replies report the device's data verbatim."""
import os
import re
import shutil
import tempfile
from hypothesis import strategies as st

from vlib.core import Violation, Out
from vlib.runner import HypStage
from vlib import mw, refs
from vlib.device import SIGNER, UIHB, BOOT
from vlib.strategies import byte_string_1_33
from ledger.pin import FileBasedPin     # noqa: E402

ID = "C13"
LEVEL = "exploration"
RULE = ("histories of 1..6 queries on one manager with the device state changing (and optionally a reconnection, and up to three other commands - signing, advancing, other queries, refused requests - served while the device still holds the old state) in between; each: Hypothesis-generated device states (seven independent random hashes, difficulties incl. "
        "0 and 2^288-1, all flag combinations, three networks, random keys / heartbeat messages / "
        "DER signatures with r,s of 1..33 bytes, 0x31 prefix and trailing bytes) x query command "
        "x device mode transitions during uiHeartbeat; every case is non-trivial (all fields "
        "random); distinct by case fingerprint")
ASSUMPTIONS = ["simulated device answers with the framing of bc_state.c / heartbeat.c / hsm.c"]
SELECTORS = [1, 2, 3, 5, 0x81, 0x82, 0x84]
FIELD_OF = {1: "best_block", 2: "newest_valid_block", 3: "ancestor_block",
            5: "ancestor_receipts_root", 0x81: "updating.best_block",
            0x82: "updating.newest_valid_block", 0x84: "updating.next_expected_block"}
NETWORKS = {1: "mainnet", 2: "testnet", 3: "regtest"}
REQUIRED_LABELS = {t: ["history", "history>=4", "interlude:getPubKey", "interlude:params", "interlude:advance", "interlude:sign_auth", "interlude:v1", "interlude:link-failure", "interlude:v1-link-failure", "reconnect", "hb-fault", "v1", "cmd:getPubKey", "cmd:blockchainState", "cmd:blockchainParameters",
                       "cmd:signerHeartbeat", "cmd:uiHeartbeat", "uihb:ok", "uihb:device-error",
                       "diff:0", "diff:max", "sig:0x31", "stale-frame-refused|stale-frame-accepted"] for t in ("quick", "thorough")}

def datum(n):
    """n bytes the device holds: anything - also data that ends like a status word or begins
    like the framing bytes of an answer (the host must take the datum as it is)."""
    plain = st.binary(min_size=n, max_size=n)
    return st.one_of(plain, plain, plain, st.tuples(plain, st.sampled_from(
        [b"\x90\x00", b"\x6f\x00", b"\x61\x00", b"\x00\x00"])).map(lambda t: t[0][:-2] + t[1]),
        st.tuples(plain, st.sampled_from([b"\x80\x04", b"\x80\x20\x01", b"\x90\x00"])).map(
            lambda t: (t[1] + t[0])[:n]))


h32 = datum(32)


@st.composite
def sigs(draw):
    return {"r": draw(byte_string_1_33()), "s": draw(byte_string_1_33()),
            "first": draw(st.sampled_from([0x30, 0x30, 0x31])),
            "trailing": draw(st.one_of(st.just(b""), st.binary(max_size=5)))}


@st.composite
def one_query(draw, tier):
    cmd = draw(st.sampled_from(["getPubKey", "blockchainState", "blockchainParameters",
                                "signerHeartbeat", "uiHeartbeat"]))
    c = {"cmd": cmd}
    if cmd == "getPubKey":
        c["path"] = draw(st.sampled_from(refs.ALL_PATHS))
        c["keys"] = [draw(datum(65)) for _ in refs.ALL_PATHS]
    elif cmd == "blockchainState":
        c["hashes"] = [draw(h32) for _ in SELECTORS]
        c["difficulty"] = draw(st.one_of(
            st.sampled_from([0, 1, 255, 256, 2 ** 288 - 1, 2 ** 287, 0x9000, 0x019000,
                             (2 ** 200) * 65536 + 0x9000]),
            st.integers(0, 2 ** 288 - 1),
            st.integers(1, 36).flatmap(lambda n: st.integers(0, 2 ** (8 * n) - 1))))
        c["flags"] = [draw(st.integers(0, 1)) for _ in range(3)]
        if draw(st.integers(0, 5)) == 0:
            # one answer of the series is a stale frame: well-formed, but for another hash
            i = draw(st.integers(0, len(SELECTORS) - 1))
            j = draw(st.integers(0, len(SELECTORS) - 2))
            c["swap"] = [SELECTORS[i], [x for x in SELECTORS if x != SELECTORS[i]][j]]
    elif cmd == "blockchainParameters":
        c["checkpoint"] = draw(h32)
        c["min_diff"] = draw(st.one_of(st.sampled_from([0, 1, 2 ** 288 - 1]),
                                       st.integers(0, 2 ** 288 - 1), st.integers(0, 2 ** 64)))
        c["network"] = draw(st.sampled_from([1, 2, 3]))
    else:
        ui = cmd == "uiHeartbeat"
        c["ud"] = draw(datum(32 if ui else 16))
        c["sig"] = draw(sigs())
        c["prefix"] = draw(st.one_of(st.just(b"HSM:UI:HB:5.4:" if ui else b"HSM:SIGNER:HB:5.4:"),
                                     st.binary(max_size=40)))
        c["hash"] = draw(h32)
        c["pubkey"] = draw(datum(65))
        # decoys: the heartbeat of the other app must not leak into this one
        c["other"] = {"sig": draw(sigs()), "hash": draw(h32),
                      "pubkey": draw(st.binary(min_size=65, max_size=65))}
        if ui:
            c["exit_modes"] = draw(st.one_of(
                st.just([UIHB, SIGNER]), st.just([UIHB, SIGNER]), st.just([UIHB, BOOT]),
                st.lists(st.sampled_from([UIHB, SIGNER, BOOT]), min_size=2, max_size=2)))
            c["exit_raises"] = draw(st.booleans())
            c["mode_error_after"] = draw(st.sampled_from([None, None, None, 1, 2]))
        if draw(st.integers(0, 3)) == 0:
            # the heartbeat generation itself fails once on the device (ERR_*_INTERNAL etc.)
            c["hb_fault"] = [draw(st.integers(1, 5)),
                             draw(st.sampled_from([0x6A99, 0x6B11, 0x6B10, 0x6A01, 0x6BFF]))]
    return c


INTERLUDES, interlude = mw.INTERLUDES, mw.interlude


def der(sg):
    return refs.der_sig(sg["r"], sg["s"], sg["first"], sg["trailing"])


@st.composite
def cases(draw, tier):
    """1..3 queries against ONE manager lifetime; the device state changes between them (an
    advance, a signer upgrade, a reconnection to another device)."""
    n = draw(st.sampled_from([1, 1, 2, 2, 3, 3, 4, 6]))
    steps = []
    first = draw(one_query(tier))
    steps.append(first)
    for _ in range(n - 1):
        nxt = draw(one_query(tier))
        if draw(st.booleans()):
            # the same query again (as the first, or as the one before), over a changed device
            nxt = draw(one_query_of(tier, draw(st.sampled_from([first["cmd"],
                                                               steps[-1]["cmd"]]))))
        nxt["reconnect"] = draw(st.booleans())
        # other commands served by the same manager between two queries, while the device still
        # holds what the previous query reported (whatever they leave behind in the manager must
        # not show in the next query's reply)
        nxt["interlude"] = draw(st.lists(st.sampled_from(INTERLUDES), max_size=3))
        steps.append(nxt)
    v1 = all(q["cmd"] == "getPubKey" for q in steps) and draw(st.booleans())
    # the manager may hold the device PIN (it then knows how to get past a bootloader); where
    # the bootloader's exit leads is the device's business
    return {"steps": steps, "v1": v1, "pin": draw(st.booleans()),
            "post_mode": draw(st.sampled_from([SIGNER, SIGNER, BOOT, UIHB]))}


@st.composite
def one_query_of(draw, tier, cmd):
    for _ in range(40):
        q = draw(one_query(tier))
        if q["cmd"] == cmd:
            return q
    q = draw(one_query(tier))
    return q


class Number:
    def __init__(self, value):
        self.value = value


_TMP = {}


def tmpdir():
    pid = os.getpid()
    if pid not in _TMP:
        _TMP[pid] = tempfile.mkdtemp(prefix="verif-c13-")
        import atexit
        atexit.register(shutil.rmtree, _TMP[pid], True)
    return _TMP[pid]


def run_case(c):
    w = mw.default_world()
    p = None
    labels = []
    if len(c["steps"]) >= 2:
        labels.append("history")
    for i, q in enumerate(c["steps"]):
        if p is not None and q.get("interlude"):
            w.mode_error = False
            labels.extend(interlude(p, w, q["interlude"], bool(c.get("v1"))))
            if labels[-1] == "manager-stopped":
                break
            if len(c["steps"]) >= 4:
                labels.append("history>=4")
        mark = len(w.log)
        asked = False
        if p is not None and q.get("reconnect"):
            # the link drops and the manager reconnects (to a possibly different device state)
            pp = getattr(p, "protocol_v2", p)
            if hasattr(pp, "report_comm_issue"):
                pp.report_comm_issue()
            else:
                pp._comm_issue = True
            asked = True
        w.mode_error = False
        q = dict(q, v1=bool(c.get("v1")), pin=bool(c.get("pin")))
        w.post_mode = c.get("post_mode", SIGNER)
        out, p = run_query(q, w, p)
        labels.extend(out)
        if asked:
            labels.append("reconnect" if any(e[0] == "connect" for e in w.log[mark:])
                          else "reconnect-not-observed")
        if q["cmd"] == "uiHeartbeat" and (q["exit_modes"] != [UIHB, SIGNER] or
                                          q.get("mode_error_after")):
            break          # the device did not obey the mode switches: the history ends here
    return Out(labels, True)


def run_query(c, w, p):
    cmd = c["cmd"]
    labels = ["cmd:" + cmd] + (["v1"] if c.get("v1") else [])
    req = {"command": cmd, "version": 1 if c.get("v1") else 5}
    if cmd == "getPubKey":
        w.pubkeys = {refs.path_bin(p): k for p, k in zip(refs.ALL_PATHS, c["keys"])}
        req["keyId"] = c["path"]
    elif cmd == "blockchainState":
        w.hashes = dict(zip(SELECTORS, c["hashes"]))
        w.difficulty = c["difficulty"]
        w.flags = tuple(c["flags"])
        w.state_swap = tuple(c["swap"]) if c.get("swap") else None
        if c["difficulty"] == 0:
            labels.append("diff:0")
        if c["difficulty"] == 2 ** 288 - 1:
            labels.append("diff:max")
    elif cmd == "blockchainParameters":
        w.params = c["checkpoint"] + c["min_diff"].to_bytes(36, "big") + bytes([c["network"]])
    else:
        ui = cmd == "uiHeartbeat"
        req["udValue"] = c["ud"].hex()
        mine = {"sig": der(c["sig"]), "hash": c["hash"], "pubkey": c["pubkey"]}
        other = {"sig": der(c["other"]["sig"]), "hash": c["other"]["hash"],
                 "pubkey": c["other"]["pubkey"]}
        if ui:
            w.hb.update({"ui_sig": mine["sig"], "ui_hash": mine["hash"],
                         "ui_pubkey": mine["pubkey"], "ui_msg_prefix": c["prefix"],
                         "sig": other["sig"], "hash": other["hash"], "pubkey": other["pubkey"]})
            w.uihb_exit_modes = list(c["exit_modes"])
            w.exit_raises = c["exit_raises"]
        else:
            w.hb.update({"sig": mine["sig"], "hash": mine["hash"], "pubkey": mine["pubkey"],
                         "msg_prefix": c["prefix"], "ui_sig": other["sig"],
                         "ui_hash": other["hash"], "ui_pubkey": other["pubkey"]})
        if c["sig"]["first"] == 0x31:
            labels.append("sig:0x31")
        if c.get("hb_fault"):
            w.hb_fault = (ui, c["hb_fault"][0], c["hb_fault"][1])
            labels.append("hb-fault")
    if p is None:
        pin = None
        if c.get("pin"):
            pf = os.path.join(tmpdir(), "pin.txt")
            with open(pf, "wb") as f:
                f.write(w.pin)
            pin = FileBasedPin(pf, w.pin, False)
            labels.append("manager-holds-pin")
        p = mw.stack(w, v1=bool(c.get("v1")), pin=pin)
    if cmd == "uiHeartbeat" and c.get("mode_error_after"):
        # GET_MODE starts failing after the n-th exit (device in an unknown state)
        n_target = c["mode_error_after"]
        orig = list(w.uihb_exit_modes)

        class Modes(list):
            def pop(self, i=0):
                v = list.pop(self, i)
                if len(orig) - len(self) == n_target:
                    w.mode_error = True
                return v
        w.uihb_exit_modes = Modes(orig)
    rep = mw.request(p, req)
    mw.check_sim(w)
    if not isinstance(rep, dict) or type(rep.get("errorcode")) is not int:
        raise Violation("reply-shape", repr(rep)[:300])

    def expect(got, want, what):
        if got != want:
            raise Violation("field:%s" % what, "reply has %r, device holds %r" % (got, want))

    def named_fields(got, want, what):
        """Every field the docs name carries the device's datum (further fields are allowed)."""
        if not isinstance(got, dict):
            raise Violation("field:%s" % what, "reply has %r" % (got,))
        for k, v in want.items():
            if isinstance(v, dict):
                named_fields(got.get(k), v, "%s.%s" % (what, k))
            elif isinstance(v, Number):
                same_number(got.get(k), v.value, "%s.%s" % (what, k))
            else:
                expect(got.get(k), v, "%s.%s" % (what, k))
                if type(got.get(k)) is not type(v):
                    raise Violation("field-type:%s.%s" % (what, k), repr(got.get(k)))

    def same_number(got, value, what):
        """The same unsigned number: a JSON integer, or (as docs/protocol.md words it) the hex
        string of its big-endian bytes."""
        if type(got) is int:
            n = got
        elif type(got) is str and re.fullmatch(r"(0x)?[0-9a-fA-F]+", got):
            n = int(got, 16)
        else:
            raise Violation("field:%s" % what, "reply has %r, device holds the number %d" % (
                got, value))
        if n != value:
            raise Violation("field:%s" % what, "reply has %r, device holds %d (%#x)" % (
                got, value, value))

    if cmd == "getPubKey":
        named_fields(rep, {"errorcode": 0, "pubKey": dict(zip(refs.ALL_PATHS, c["keys"]))[
            c["path"]].hex()}, "getPubKey")
    elif cmd == "blockchainState" and c.get("swap") and rep["errorcode"] != 0:
        # the manager noticed the stale frame: a device error, nothing reported
        expect(rep["errorcode"], -905, "errorcode after a stale frame")
        labels.append("stale-frame-refused")
    elif cmd == "blockchainState":
        if c.get("swap"):
            labels.append("stale-frame-accepted")
        expect(rep["errorcode"], 0, "errorcode")
        st_ = rep.get("state", {})
        want = {"updating": {}}
        for sel, h in zip(SELECTORS, c["hashes"]):
            name = FIELD_OF[sel]
            if name.startswith("updating."):
                want["updating"][name.split(".")[1]] = h.hex()
            else:
                want[name] = h.hex()
        want["updating"]["total_difficulty"] = Number(c["difficulty"])
        for nm, v in zip(["in_progress", "already_validated", "found_best_block"], c["flags"]):
            want["updating"][nm] = bool(v)
        named_fields(st_, want, "state")
    elif cmd == "blockchainParameters":
        named_fields(rep, {"errorcode": 0, "parameters": {
            "checkpoint": c["checkpoint"].hex(), "minimum_difficulty": Number(c["min_diff"]),
            "network": NETWORKS[c["network"]]}}, "blockchainParameters")
    else:
        ui = cmd == "uiHeartbeat"
        want = {"errorcode": 0, "pubKey": c["pubkey"].hex(),
                "message": (c["prefix"] + c["ud"]).hex(), "tweak": c["hash"].hex(),
                "signature": {"r": c["sig"]["r"].hex(), "s": c["sig"]["s"].hex()}}
        if c.get("hb_fault"):
            # the device refused the heartbeat: a documented failure code, no heartbeat data
            if rep["errorcode"] not in (-301, -905, -906) or \
                    set(rep) & (set(want) - {"errorcode"}):
                raise Violation("field:%s after a heartbeat failure on the device" % cmd,
                                repr(rep)[:200])
        elif not ui:
            named_fields(rep, want, "signerHeartbeat")
        else:
            nominal = c["exit_modes"] == [UIHB, SIGNER] and not c.get("mode_error_after")
            if rep["errorcode"] == 0:
                if w.mode != SIGNER or w.mode_error:
                    raise Violation("uihb-success-not-back-in-signer",
                                    "reply 0, device mode %r (mode query failing: %s)" % (
                                        w.mode, w.mode_error))
                named_fields(rep, want, "uiHeartbeat")
                labels.append("uihb:ok")
            else:
                expect(rep["errorcode"], -905, "uiHeartbeat error reply")
                labels.append("uihb:device-error")
            if nominal and rep["errorcode"] != 0:
                raise Violation("uihb-nominal-failed", repr(rep))
            if not nominal and c["exit_modes"][0] != UIHB and rep["errorcode"] == 0:
                raise Violation("uihb-success-without-ui-mode", repr(c["exit_modes"]))
    return labels, p


def stages(tier):
    return [HypStage("queries", lambda t: cases(t), run_case, {"quick": 300, "thorough": 8000},
                     budget_s={"quick": 300, "thorough": 900})]
