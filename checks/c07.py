"""C07 - an SGX attestation is accepted only if the whole quote-to-root chain verifies."""
import copy
import json
import os
import shutil
import tempfile

from hypothesis import strategies as st

from vlib.core import Violation, Out, HarnessError
from vlib.runner import HypStage
from vlib import env, certs
from vlib.certs import V2Cert

env.prepare()
from admin.certificate import HSMCertificate, HSMCertificateV2ElementX509   # noqa: E402
from cryptography.hazmat.primitives.asymmetric import ec as cec      # noqa: E402
import time as _time                                                 # noqa: E402

# the instant by which the code under test had been imported into this process
IMPORTED_AT = _time.time()


ID = "C07"
LEVEL = "exploration"
RULE = ("Hypothesis-generated version-2 certificates from freshly built P-256 X.509 chains (root "
        "-> 0..2 intermediates -> leaf, validity windows relative to a fake clock incl. the two "
        "boundary instants), attestation key, auth data 1..1000 bytes, QE report body and quote "
        "with both report_data bindings, with 0..2 corruptions (any byte of any message / "
        "signature / key / auth data / custom data, signature by another key, re-keyed "
        "attestation key, re-parenting, expired / not-yet-valid certificates, P-384 or secp256k1 "
        "keys in the chain, wrong root, root bundled in the file, swapped certificates); the loaded "
        "object is validated 1..4 times (same root again / an unrelated root); non-trivial = a corruption or a "
        "non-default window; distinct by case fingerprint")
ASSUMPTIONS = [
    "validity by construction (each corruption breaks a known element); uncorrupted chains are "
    "re-verified independently (cryptography for raw ECDSA links, ecdsa for issuer signatures)",
    "the clock is the real one (certificates are dated relative to it; a case finishes within "
    "30 minutes); the host time zone is the process's (TZ + tzset)",
]
CORR = ["flip", "flip", "flip", "other-key", "window", "reparent", "wrong-root", "swap-certs",
        "p384-leaf", "k1-leaf", "p384-inter", "boundary-window", "rekey-att", "bundled-root",
        "reparent-resigned", "reparent-resigned", "self-issued", "append-unsigned",
        "extend-resigned"]
KNOWN_SIG = "quote-certified-directly-by-x509-accepted"
FLIP_FIELDS = {"quote": ["message", "custom_data", "signature"],
               "attestation": ["message", "key", "auth_data", "signature"]}
REQUIRED_LABELS = {t: ["valid", "invalid:quote", "invalid:attestation", "binding-shifted:quote",
                       "binding-shifted:attestation",
                       "invalid:quoting_enclave", "invalid:platform_ca", "depth:1", "depth:2",
                       "depth:3", "revalidated:same", "revalidated:other", "tz:utc", "tz:other",
                       "time-passes:expired-since-import", "time-passes:valid-since-import"] + ["corr:" + k for k in sorted(set(CORR))]
                   for t in ("quick", "thorough")}


@st.composite
def cases(draw, tier):
    ninter = draw(st.integers(0, 2))
    spec = {"root": draw(st.integers(1, 2 ** 255)), "leaf": draw(st.integers(1, 2 ** 255)),
            "att": draw(st.integers(1, 2 ** 255)),
            "inter": [draw(st.integers(1, 2 ** 255)) for _ in range(ninter)],
            "auth": draw(st.one_of(st.binary(min_size=1, max_size=40),
                                   st.binary(min_size=1, max_size=1000))),
            "custom": draw(st.binary(min_size=1, max_size=150)),
            "seed": draw(st.binary(max_size=8)),
            # the upper half of the report data: zero as devices leave it, or anything
            "rd_tail_a": draw(st.one_of(st.just(bytes(32)), st.binary(min_size=32, max_size=32))),
            "rd_tail_q": draw(st.one_of(st.just(bytes(32)), st.binary(min_size=32, max_size=32))),
            # digests that begin or end in zero bytes (1 in 256 by chance)
            "grind_custom": draw(st.sampled_from([None, None, None, "ends-00", "starts-00",
                                                  "ends-0000"])),
            "grind_auth": draw(st.sampled_from([None, None, None, "ends-00", "starts-00"]))}
    # the digest is in the (correctly signed) report data, but not at its beginning
    sh = draw(st.sampled_from([None] * 8 + [["q", 1, "zero"], ["q", 32, "other"], ["q", 16, "zero"],
                                            ["a", 1, "zero"], ["a", 32, "other"]]))
    if sh:
        spec["rd_shift_" + sh[0]] = [sh[1], sh[2]]
    corr = []
    for _ in range(draw(st.sampled_from([0, 1, 1, 1, 2]))):
        corr.append({"kind": draw(st.sampled_from(CORR)), "el": draw(st.integers(0, 9)),
                     "field": draw(st.integers(0, 9)), "pos": draw(st.integers(0, 10 ** 6)),
                     "bit": draw(st.integers(0, 7)), "key": draw(st.integers(1, 2 ** 255)),
                     "win": draw(st.sampled_from(["expired", "not-yet", "expired-1h",
                                                  "not-yet-1h", "expired-30m", "not-yet-30m"])),
                     "bwin": draw(st.sampled_from(["ends-in-30m", "started-30m-ago", "ends-in-1h",
                                                   "started-1h-ago", "no-expiry"]))})
    return {"spec": spec, "corruptions": corr,
            # UTC offset of the host the verification runs on (seconds)
            "tz_offset": draw(st.sampled_from([0, 0, -10800, 3600, 19800, -43200, 50400])),
            "again": draw(st.lists(st.sampled_from(["same", "other", "same"]), max_size=3)),
            "other_root": draw(st.integers(1, 2 ** 255))}


def flip_bytes(b, pos, bit):
    ba = bytearray(b)
    ba[pos % len(ba)] ^= 1 << bit
    return bytes(ba)


def apply(c):
    """Returns (doc, root_map, broken set, labels, V2Cert)."""
    spec = copy.deepcopy(c["spec"])
    windows = {}
    labels = []
    pre = []
    # corruptions that change how the chain is built come first
    for k in c["corruptions"]:
        if k["kind"] in ("window", "boundary-window"):
            pre.append(k)
    base = V2Cert(spec)
    names_x = base.chain
    for k in pre:
        nm = names_x[k["el"] % len(names_x)]
        windows[nm] = k["win"] if k["kind"] == "window" else k["bwin"]
    spec["windows"] = windows
    v = V2Cert(spec)
    broken = set(nm for nm, wname in windows.items()
                 if wname in certs.BROKEN_WINDOWS)
    doc = v.to_dict()
    els = {e["name"]: e for e in doc["elements"]}
    root_map = v.root_element_map()
    done = set()
    touched = set(windows)

    def claim(*names):
        """Each element is touched by at most one corruption, so that no corruption undoes or
        masks another; returns False when the corruption has to be skipped."""
        if touched & set(names):
            labels[-1] = labels[-1] + "-na"
            return False
        touched.update(names)
        return True
    for k in c["corruptions"]:
        kind = k["kind"]
        labels.append("corr:" + kind)
        if kind in ("window", "boundary-window"):
            continue
        ident = (kind, k["el"], k["field"], k["pos"], k["bit"]) if kind == "flip" else kind
        if ident in done and kind in ("flip", "swap-certs"):
            labels[-1] = "corr:%s-na" % kind       # applying it twice would undo it
            continue
        done.add(ident)
        if kind == "flip":
            allnames = ["quote", "attestation"] + v.chain
            nm = allnames[k["el"] % len(allnames)]
            e = els[nm]
            if not claim(nm):
                continue
            import base64
            f = FLIP_FIELDS[nm][k["field"] % len(FLIP_FIELDS[nm])] if nm in FLIP_FIELDS \
                else "message"
            raw = bytes.fromhex(e[f]) if nm in FLIP_FIELDS else base64.b64decode(e["message"])
            ident = ("flipped", nm, f, k["pos"] % len(raw), k["bit"])
            if ident in done:
                labels[-1] = "corr:flip-na"
                continue
            done.add(ident)
            if nm not in FLIP_FIELDS:
                raw = certs.flip_in_signed_or_signature(raw, k["pos"], k["bit"])
            elif f == "key":
                # byte 0 is the point-encoding prefix (04 -> 06/07 is the same key); flip x / y
                raw = raw[:1] + flip_bytes(raw[1:], k["pos"], k["bit"])
            else:
                raw = flip_bytes(raw, k["pos"], k["bit"])
            e[f] = raw.hex() if nm in FLIP_FIELDS else certs.der_to_b64(raw)
            labels.append("flip:%s.%s" % (nm, f) if nm in FLIP_FIELDS else "flip:x509")
            broken.add(nm)
        elif kind == "other-key":
            allnames = ["quote", "attestation"] + v.chain
            nm = allnames[k["el"] % len(allnames)]
            other = certs.p256_key(k["key"], role="other")
            e = els[nm]
            if not claim(nm):
                continue
            if nm in ("quote", "attestation"):
                e["signature"] = certs.sign_p256(other, bytes.fromhex(e["message"])).hex()
            else:
                e["message"] = certs.der_to_b64(certs.cert_der(certs.make_cert(
                    nm, v.keys[nm].public_key(), v.parent[nm], other,
                    windows.get(nm, "valid"))))
            broken.add(nm)
        elif kind == "rekey-att":
            if not claim("attestation", "quote"):
                continue
            k2 = certs.p256_key(k["key"], role="other")
            els["attestation"]["key"] = (b"\x04" + certs.pub_raw64(k2)).hex()
            els["quote"]["signature"] = certs.sign_p256(
                k2, bytes.fromhex(els["quote"]["message"])).hex()
            broken.add("attestation")
        elif kind == "reparent":
            if len(v.chain) >= 2 and not claim("quoting_enclave" if k["el"] % 2 == 0
                                               else "attestation"):
                continue
            if len(v.chain) >= 2 and k["el"] % 2 == 0:
                els["quoting_enclave"]["signed_by"] = "sgx_root"
                broken.add("quoting_enclave")
                v.parent = dict(v.parent, quoting_enclave="sgx_root")
            elif len(v.chain) >= 2:
                els["attestation"]["signed_by"] = v.chain[1]
                broken.add("attestation")
                v.parent = dict(v.parent, attestation=v.chain[1])
            else:
                labels[-1] = "corr:reparent-na"
        elif kind == "reparent-resigned":
            # an element is hung under ANOTHER element of the chain and really signed by that
            # element's key; only ever the sole corruption of a case
            if len(c["corruptions"]) != 1:
                labels[-1] = "corr:reparent-resigned-na"
                continue
            ups = v.chain + ["sgx_root"]
            which = k["field"] % 3
            if which == 0:
                # attestation key certified by another certificate: every stated condition
                # still holds (its certifier has a P-256 key and signed the report body)
                new = ups[1 + k["el"] % (len(ups) - 1)]
                els["attestation"]["signed_by"] = new
                els["attestation"]["signature"] = certs.sign_p256(
                    v.keys[new], bytes.fromhex(els["attestation"]["message"])).hex()
                labels.append("reparent-resigned:attestation->" +
                              ("root" if new == "sgx_root" else "x509"))
            elif which == 1:
                # the quote certified directly by a certificate: there is no attestation key
                # on its path, so "signed by that attestation key" cannot hold
                new = ups[k["el"] % len(ups)]
                els["quote"]["signed_by"] = new
                els["quote"]["signature"] = certs.sign_p256(
                    v.keys[new], bytes.fromhex(els["quote"]["message"])).hex()
                broken.add("quote")
                labels.append("reparent-resigned:quote->x509")
            else:
                # a certificate skips its issuer and is issued by a higher one
                if len(v.chain) < 2:
                    labels[-1] = "corr:reparent-resigned-na"
                    continue
                i = k["el"] % (len(v.chain) - 1)
                nm = v.chain[i]
                new = ups[i + 2 + (k["pos"] % (len(ups) - i - 2))]
                els[nm]["signed_by"] = new
                els[nm]["message"] = certs.der_to_b64(certs.cert_der(certs.make_cert(
                    nm, v.keys[nm].public_key(), "root" if new == "sgx_root" else new,
                    v.keys[new], windows.get(nm, "valid"))))
                labels.append("reparent-resigned:x509-skips-issuer")
        elif kind in ("append-unsigned", "extend-resigned"):
            # bytes after the structure the message holds: part of what was signed, or not
            nm = ("quote", "attestation")[k["el"] % 2]
            if not claim(nm):
                continue
            extra = bytes([1 + k["bit"]]) * (1 + k["pos"] % 5)
            m = bytes.fromhex(els[nm]["message"]) + extra
            els[nm]["message"] = m.hex()
            if kind == "append-unsigned":
                broken.add(nm)
            else:
                signer = v.keys["attestation"] if nm == "quote" else v.keys[v.parent[nm]]
                els[nm]["signature"] = certs.sign_p256(signer, m).hex()
        elif kind == "self-issued":
            # a certificate of the chain is replaced by a self-signed one over the SAME key
            # (issuer name = its own name): everything below it still verifies, it does not
            nm = v.chain[k["el"] % len(v.chain)]
            if not claim(nm):
                continue
            els[nm]["message"] = certs.der_to_b64(certs.cert_der(certs.make_cert(
                nm, v.keys[nm].public_key(), nm, v.keys[nm], windows.get(nm, "valid"))))
            broken.add(nm)
        elif kind == "wrong-root":
            if not claim(v.chain[-1]):
                continue
            other = certs.p256_key(k["key"], role="other")
            root_map = {"name": "sgx_root", "signed_by": "sgx_root",
                        "message": certs.der_to_b64(certs.cert_der(certs.make_cert(
                            "root", other.public_key(), "root", other, "long")))}
            broken.add(v.chain[-1])
        elif kind == "bundled-root":
            # the whole chain hangs off a foreign root, which the file carries along as an
            # element named like the root of trust; the caller's root of trust is the genuine one
            top = v.chain[-1]
            if not claim(top):
                continue
            other = certs.p256_key(k["key"], role="foreignroot")
            els[top]["message"] = certs.der_to_b64(certs.cert_der(certs.make_cert(
                top, v.keys[top].public_key(), "root", other, windows.get(top, "valid"))))
            doc["elements"].append({
                "name": "sgx_root", "type": "x509_pem", "signed_by": "sgx_root",
                "message": certs.der_to_b64(certs.cert_der(certs.make_cert(
                    "root", other.public_key(), "root", other, "long")))})
            broken.add(top)
        elif kind == "swap-certs":
            if len(v.chain) >= 2 and not claim(v.chain[-1], v.chain[-2]):
                continue
            if len(v.chain) >= 2:
                a, b = v.chain[-1], v.chain[-2]
                els[a]["message"], els[b]["message"] = els[b]["message"], els[a]["message"]
                broken.add(a)
                broken.add(b)
            else:
                labels[-1] = "corr:swap-certs-na"
        elif kind in ("p384-leaf", "k1-leaf"):
            curve = cec.SECP384R1() if kind == "p384-leaf" else cec.SECP256K1()
            k2 = certs.p256_key(k["key"], curve, role="other")
            nm = "quoting_enclave"
            if not claim("quoting_enclave", "attestation"):
                continue
            els[nm]["message"] = certs.der_to_b64(certs.cert_der(certs.make_cert(
                nm, k2.public_key(), v.parent[nm], v.keys[v.parent[nm]] if
                v.parent[nm] in v.keys else v.keys["sgx_root"], windows.get(nm, "valid"))))
            els["attestation"]["signature"] = certs.sign_p256(
                k2, bytes.fromhex(els["attestation"]["message"])).hex()
            broken.add("attestation")
        elif kind == "p384-inter":
            if len(v.chain) >= 2 and not touched & {v.chain[0], v.chain[1]} and \
                    claim(v.chain[0], v.chain[1]):
                k2 = certs.p256_key(k["key"], cec.SECP384R1(), role="other")
                nm = v.chain[1]
                els[nm]["message"] = certs.der_to_b64(certs.cert_der(certs.make_cert(
                    nm, k2.public_key(), v.parent[nm], v.keys[v.parent[nm]],
                    windows.get(nm, "valid"))))
                child = v.chain[0]
                els[child]["message"] = certs.der_to_b64(certs.cert_der(certs.make_cert(
                    child, v.keys[child].public_key(), nm, k2, windows.get(child, "valid"))))
                labels.append("p384-inter-applied")
            else:
                labels[-1] = "corr:p384-inter-na"
    if c["spec"].get("rd_shift_q"):
        broken.add("quote")
        labels.append("binding-shifted:quote")
    if c["spec"].get("rd_shift_a"):
        broken.add("attestation")
        labels.append("binding-shifted:attestation")
    return doc, root_map, broken, labels, v


_TMP = {}


def tmpfile(name):
    pid = os.getpid()
    if pid not in _TMP:
        _TMP[pid] = tempfile.mkdtemp(prefix="verif-c07-")
        import atexit
        atexit.register(shutil.rmtree, _TMP[pid], True)
    return os.path.join(_TMP[pid], name)


def path_of(doc):
    els = {e["name"]: e for e in doc["elements"]}
    path, cur = [], "quote"
    while cur != "sgx_root":
        path.append(cur)
        cur = els[cur]["signed_by"]
    return list(reversed(path))


def doc_signed_by(doc, name):
    return next(e["signed_by"] for e in doc["elements"] if e["name"] == name)


def check_valid_values(val, v, doc):
    if not isinstance(val, dict) or not {"sgx_quote", "message"} <= set(val):
        raise Violation("value-shape", repr(val)[:200])
    if val["message"] != v.custom.hex():
        raise Violation("custom-message-value", "%r vs %r" % (val["message"], v.custom.hex()))
    q = val["sgx_quote"]
    rb = q.report_body
    f = v.q_rb_fields
    got = {"mrenclave": rb.mrenclave, "mrsigner": rb.mrsigner,
           "report_data": rb.report_data.field, "cpusvn": rb.cpusvn, "configid": rb.configid,
           "isvprodid": rb.isvprodid, "isvsvn": rb.isvsvn, "miscselect": rb.miscselect,
           "flags": rb.attributes.flags, "xfrm": rb.attributes.xfrm,
           "isvfamilyid": rb.isvfamilyid, "isvextprodid": rb.isvextprodid,
           "configsvn": rb.configsvn}
    for k2, g in got.items():
        if g != f[k2]:
            raise Violation("quote-field:" + k2, "%r vs %r" % (g, f[k2]))
    if (q.version, q.sign_type, q.qe_svn, q.pce_svn, q.uuid, q.user_data) != (
            v.q_hdr["version"], v.q_hdr["sign_type"], v.q_hdr["qe_svn"], v.q_hdr["pce_svn"],
            v.q_hdr["uuid"], v.q_hdr["user_data"]):
        raise Violation("quote-header-fields", "")


def run_case(c):
    doc, root_map, broken, labels, v = apply(c)
    path = path_of(doc)
    first = next((n for n in path if n in broken), None)
    if not c["corruptions"]:
        # independent re-verification of the genuine chain
        chain_ders = [certs.cert_der(v.root_cert)] + [v.certs[n] for n in reversed(v.chain)]
        ok = all(certs.verify_issuer_independent(chain_ders[i + 1], chain_ders[i]) and
                 certs.in_window(chain_ders[i + 1]) for i in range(len(chain_ders) - 1))
        ok = ok and certs.verify_p256_independent(
            certs.pub_raw64(v.keys["quoting_enclave"]), v.qe_rb, v.sig_att)
        ok = ok and certs.verify_p256_independent(
            certs.pub_raw64(v.keys["attestation"]), v.quote, v.sig_quote)
        if not ok:
            raise HarnessError("genuine chain does not verify independently")
    fpath = tmpfile("cert.json")
    with open(fpath, "w") as f:
        json.dump(doc, f)
    cert = HSMCertificate.from_jsonfile(fpath)
    labels.append("depth:%d" % len(v.chain))
    labels.append("tz:utc" if not c.get("tz_offset") else "tz:other")
    other = certs.p256_key(c.get("other_root", 1), role="unrelated-root")
    other_map = {"name": "sgx_root", "signed_by": "sgx_root",
                 "message": certs.der_to_b64(certs.cert_der(certs.make_cert(
                     "root", other.public_key(), "root", other, "long")))}
    rounds = [("first", root_map)] + [(a, root_map if a == "same" else other_map)
                                      for a in c.get("again", [])]
    for rnd, (what, rmap) in enumerate(rounds):
        root = HSMCertificateV2ElementX509(rmap)
        with certs.host_timezone(c.get("tz_offset", 0)):
            got = cert.validate_and_get_values(root)
        where = "validation #%d of the same object (%s root)" % (rnd + 1, what)
        if rnd > 0:
            labels.append("revalidated:" + what)
        if set(got) != {"quote"}:
            raise Violation("targets", repr(sorted(got)))
        g = got["quote"]
        exp_first = first if what != "other" else path[0]
        if exp_first is None:
            if g[0] is not True:
                raise Violation("valid-chain-rejected", "%s: code says %r; corruptions %r" % (
                    where, g[:2], [k["kind"] for k in c["corruptions"]]))
            check_valid_values(g[1], v, doc)
            if rnd == 0:
                labels.append("valid")
        else:
            if g[0] is not False and "reparent-resigned:quote->x509" in labels and \
                    what != "other":
                raise Violation(KNOWN_SIG, "%s: the quote names the certificate %r as its "
                                "certifier and carries that certificate key's signature; no "
                                "attestation-key element is on its path, yet it is reported "
                                "valid" % (where, doc_signed_by(doc, "quote")))
            if g[0] is not False:
                raise Violation("invalid-chain-accepted:" + exp_first, "%s: first broken "
                                "element %s (corruptions %r) but code says valid" % (
                                    where, exp_first,
                                    [k["kind"] for k in c["corruptions"]][:3]))
            # which element is named is not part of the statement (it is for version 1, C06)
            if rnd == 0:
                labels.append("invalid:" + exp_first)
                labels.append("named-first-broken" if g[1:2] == (exp_first,) else
                              "named-another-element")
    nt = bool(c["corruptions"])
    return Out(labels, nt)


def time_passes_cases(tier, seed):
    return [{"edge": e, "el": i, "inter": n} for e in ("expired-since-import",
                                                         "valid-since-import")
            for n in (0, 1, 2) for i in range(n + 1)]


def run_time_passes(c):
    """A validity window with an edge that lies between the moment the code was imported into
    this process and the moment of validation: what counts is the time of validation."""
    now = _time.time()
    if now - IMPORTED_AT < 5:
        _time.sleep(5 - (now - IMPORTED_AT))
        now = _time.time()
    edge = int(IMPORTED_AT + (now - IMPORTED_AT) / 2)
    spec = {"root": 11, "leaf": 12, "att": 13, "inter": [14, 15][:c["inter"]], "auth": b"a",
            "custom": b"c", "seed": b"s", "rd_tail_a": bytes(32), "rd_tail_q": bytes(32)}
    base = V2Cert(spec)
    nm = base.chain[c["el"] % len(base.chain)]
    if c["edge"] == "expired-since-import":
        spec["windows"] = {nm: ["abs", edge - 86400, edge]}
    else:
        spec["windows"] = {nm: ["abs", edge, edge + 86400]}
    v = V2Cert(spec)
    fpath = tmpfile("cert-time.json")
    with open(fpath, "w") as f:
        json.dump(v.to_dict(), f)
    cert = HSMCertificate.from_jsonfile(fpath)
    got = cert.validate_and_get_values(HSMCertificateV2ElementX509(v.root_element_map()))
    g = got.get("quote")
    want_valid = c["edge"] == "valid-since-import"
    if g is None or (g[0] is True) != want_valid:
        raise Violation("validity-judged-at-another-instant", "certificate %s %s %d s ago, the "
                        "code was imported %d s ago; reported %r" % (
                            nm, "expired" if not want_valid else "became valid",
                            _time.time() - edge, _time.time() - IMPORTED_AT, g and g[:2]))
    return Out(["time-passes:" + c["edge"]], True)


def stages(tier):
    from vlib.runner import EnumStage
    return [EnumStage("time-passes", time_passes_cases, run_time_passes,
                      exhaustive={"quick": True, "thorough": True},
                      budget_s={"quick": 180, "thorough": 60}),
            HypStage("chains", lambda t: cases(t), run_case, {"quick": 200, "thorough": 4000},
                     budget_s={"quick": 300, "thorough": 1200})]
