#!/bin/bash
# setup_cmd: offline. Installs nothing from the network; validates the trusted base.
set -u
here="$(cd "$(dirname "$0")" && pwd)"
cd "$here"
export PIP_NO_INDEX=1 PYTHONDONTWRITEBYTECODE=1
PY=/venv/bin/python
$PY -c "import hypothesis" 2>/dev/null || \
  /venv/bin/pip install -q --no-index --find-links /opt/veriftools/wheels hypothesis || \
  { echo "setup: cannot install hypothesis"; exit 2; }
if [ ! -d "$here/.deps/atheris" ]; then
  /venv/bin/pip install -q --no-index --find-links /opt/veriftools/wheels \
      --target "$here/.deps" atheris >/dev/null 2>&1 || echo "setup: atheris unavailable (fuzz tiers will fall back to Hypothesis only)"
fi
# the python-bitcoinlib stand-in must reproduce the upstream recorded vectors
( cd /repo && PYTHONPATH="$here/shims" $PY -m pytest -q -p no:cacheprovider -x \
    middleware/tests/comm/test_bitcoin.py middleware/tests/ledger 2>&1 | tail -2 ) | tee /dev/stderr | grep -q " passed" || \
  { echo "setup: stand-in self-test against upstream vectors failed (harness error)"; exit 2; }
PYTHONPATH="$here" $PY -c "
from vlib import env; env.prepare()
from vlib import refs; refs.selfcheck()
print('setup: reference oracles self-check ok')" || exit 2
echo "setup: done"
