"""Shared vocabulary of the harness: violations, case codec, environment.

Nothing in here touches the code under test.
"""
import hashlib
import json
import os
import traceback

VERIF = os.path.dirname(os.path.dirname(os.path.abspath(__file__)))
REPO = os.path.realpath(os.environ.get("VERIF_REPO", "/repo"))
MIDDLEWARE = os.path.join(REPO, "middleware")


class Violation(Exception):
    """The oracle of a property failed on a case.

    sig    -- short, stable signature of the root cause (clause + place), used to
              bucket failures and to match entries of known_findings.json
    detail -- human-readable evidence (observed vs expected)
    """

    def __init__(self, sig, detail=""):
        super().__init__("%s: %s" % (sig, detail))
        self.sig = sig
        self.detail = str(detail)[:4000]


class HarnessError(Exception):
    """The harness itself is broken or a run was vacuous; exit code 2, never a VIOLATION."""


class Out:
    """What run_case reports about a case that satisfied the oracle."""
    __slots__ = ("labels", "nontrivial", "fp")

    def __init__(self, labels=(), nontrivial=True, fp=None):
        self.labels = tuple(labels)
        self.nontrivial = bool(nontrivial)
        self.fp = fp


# ---------------------------------------------------------------- case codec
# Cases are plain JSON values; bytes are tagged {"$b": hex}; tuples become lists.

def to_jsonable(v):
    if isinstance(v, (bytes, bytearray)):
        return {"$b": bytes(v).hex()}
    if isinstance(v, (list, tuple)):
        return [to_jsonable(x) for x in v]
    if isinstance(v, dict):
        return {str(k): to_jsonable(x) for k, x in v.items()}
    if isinstance(v, float) and v != v:
        return {"$f": "nan"}
    if isinstance(v, float) and v in (float("inf"), float("-inf")):
        return {"$f": "inf" if v > 0 else "-inf"}
    return v


def from_jsonable(v):
    if isinstance(v, list):
        return [from_jsonable(x) for x in v]
    if isinstance(v, dict):
        if len(v) == 1 and "$b" in v:
            return bytes.fromhex(v["$b"])
        if len(v) == 1 and "$f" in v:
            return float(v["$f"])
        return {k: from_jsonable(x) for k, x in v.items()}
    return v


def dumps(case):
    return json.dumps(to_jsonable(case), sort_keys=True, separators=(",", ":"))


def loads(text):
    return from_jsonable(json.loads(text))


def roundtrip(case):
    """Normalise a generated case to exactly what a replay file would hold."""
    return loads(dumps(case))


def fingerprint(case_text):
    return hashlib.blake2b(case_text.encode(), digest_size=8).digest()


def abbreviate(obj, limit=700):
    text = obj if isinstance(obj, str) else dumps(obj)
    if len(text) <= limit:
        return json.loads(text) if not isinstance(obj, str) else text
    return text[: limit - 20] + "...(%d chars)" % len(text)


def innermost_repo_frame(exc):
    """(file relative to the repository, function) of the innermost frame of exc that lies in
    the code under test, or None if the exception never passed through it."""
    found = None
    e = exc
    seen = 0
    while e is not None and seen < 5:
        for fs in traceback.extract_tb(e.__traceback__):
            fn = os.path.realpath(fs.filename)
            if fn.startswith(REPO + os.sep):
                found = (os.path.relpath(fn, REPO), fs.name)
        e = e.__cause__ or e.__context__
        seen += 1
    return found


def exc_signature(exc):
    fr = innermost_repo_frame(exc)
    where = "%s:%s" % fr if fr else "outside-repo"
    return "exception:%s@%s" % (type(exc).__name__, where)
