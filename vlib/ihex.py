"""Intel-HEX writer (harness side): records 00 (data), 01 (EOF), 04 (extended linear address),
05 (start linear address), arbitrary record lengths, areas in any order."""


def _rec(count_addr_type_data):
    s = sum(count_addr_type_data) & 0xFF
    return ":" + bytes(count_addr_type_data + [(-s) & 0xFF]).hex().upper()


def record(rtype, addr16, data):
    return _rec([len(data), (addr16 >> 8) & 0xFF, addr16 & 0xFF, rtype] + list(data))


def write(areas, reclens, order=None, reemit_zone=False, start_addr=None, eol="\n",
          start_first=False):
    """areas: list of (start address, bytes), pairwise disjoint; reclens: list of record lengths
    1..255, cycled; order: permutation of area indices (file order)."""
    lines = []
    if start_addr is not None and start_first:
        lines.append(record(5, 0, start_addr.to_bytes(4, "big")))
    order = list(order) if order is not None else list(range(len(areas)))
    k = 0
    zone = None
    for idx in order:
        start, data = areas[idx]
        pos = 0
        first = True
        while pos < len(data):
            addr = start + pos
            z = addr >> 16
            if z != zone or first and reemit_zone:
                lines.append(record(4, 0, bytes([(z >> 8) & 0xFF, z & 0xFF])))
                zone = z
            first = False
            n = max(1, min(255, reclens[k % len(reclens)]))
            k += 1
            n = min(n, len(data) - pos, 0x10000 - (addr & 0xFFFF))
            lines.append(record(0, addr & 0xFFFF, data[pos:pos + n]))
            pos += n
    if start_addr is not None and not start_first:
        lines.append(record(5, 0, start_addr.to_bytes(4, "big")))
    lines.append(record(1, 0, b""))
    return eol.join(lines) + eol
