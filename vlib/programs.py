"""The admin commands as an operator runs them: adm_ledger.py / adm_sgx.py with a command line
(argument parsing, option names and defaults, exit status), instead of the functions behind them."""
import sys

_FLAGS = [("any_pin", "-a"), ("no_unlock", "-u"), ("no_exec", "-e"), ("verbose", "-v")]
_VALUES = [("new_pin", "-n"), ("output_file_path", "-o"),
           ("attestation_certificate_file_path", "-t"), ("root_authority", "-r"),
           ("pubkeys_file_path", "-b"), ("attestation_ud_source", "--attudsource"),
           ("signer_authorization_file_path", "-z")]
_NAMES = {"do_onboard": "onboard", "do_attestation": "attestation", "do_get_pubkeys": "pubkeys",
          "do_verify_attestation": "verify_attestation", "do_unlock": "unlock",
          "do_changepin": "changepin", "do_authorize_signer": "authorize_signer"}


VALUE_FLAGS = {"-p", "-P"} | {flag for _, flag in _VALUES}


class ExitStatus(RuntimeError):
    """The program ended with a non-zero exit status."""


def adm_argv(fn_name, options, ledger):
    argv = ["adm", _NAMES[fn_name]]
    if getattr(options, "pin", None) is not None:
        argv += ["-p" if ledger else "-P", options.pin]
    for attr, flag in _FLAGS:
        if getattr(options, attr, False) and (ledger or flag != "-e"):
            argv.append(flag)
    for attr, flag in _VALUES:
        if getattr(options, attr, None) is not None and (ledger or flag != "-z"):
            argv += [flag, getattr(options, attr)]
    return argv


def as_program(fn, options, ledger):
    """A callable taking (options) like `fn`, which runs the same command through the program's
    main() with the equivalent command line; a non-zero exit status is raised as ExitStatus."""
    import contextlib
    import io
    import adm_ledger
    import adm_sgx
    from .core import HarnessError
    argv = adm_argv(fn.__name__, options, ledger)
    mod = adm_ledger if ledger else adm_sgx
    if not callable(getattr(mod, "main", None)):
        raise HarnessError("%s has no main()" % mod.__name__)

    def run(_):
        saved = sys.argv
        sys.argv = argv
        err = io.StringIO()
        try:
            with contextlib.redirect_stderr(err):
                mod.main()
        except SystemExit as e:
            values = [argv[i + 1] for i in range(2, len(argv) - 1)
                      if argv[i] in VALUE_FLAGS]
            if e.code == 2 and "usage:" in err.getvalue() and \
                    not any(isinstance(x, str) and x.startswith("-") for x in values):
                # the argument parser turned the command line down: the harness wrote one the
                # program does not understand (an option value that looks like an option is
                # the operator's doing and counts as a refusal)
                raise HarnessError("command line not understood by %s: %r: %s" % (
                    mod.__name__, argv, err.getvalue()[-300:]))
            if e.code not in (0, None):
                raise ExitStatus("exit status %r" % (e.code,))
        finally:
            sys.argv = saved
    return run
