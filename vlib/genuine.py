"""Simulated GENUINE devices for the admin flows (C15, C17, C18): onboarding, endorsement,
UI / signer attestation (Ledger) and the SGX quote envelope. Installed on top of a World."""
import hashlib
import struct

from . import certs, attest
from .certs import sk_from_int, pub_uncompressed, pub_compressed, tweaked_sk, sign
from .device import SW, BOOT, SIGNER, LinkDrop
from .refs import path_bin, ALL_PATHS


def _h(tag, n):
    return int.from_bytes(hashlib.sha256(("%s:%d" % (tag, n)).encode()).digest(), "big")


def flip(b, pos, bit):
    ba = bytearray(b)
    ba[pos % len(ba)] ^= 1 << (bit % 8)
    return bytes(ba)


class Genuine:
    """spec: ints root/device/att, wallet [[path,int]..6], ui_hash, signer_hash, iteration,
    best, tx, ts, legacy(bool), version, ui_version, page (UI/signer message page size),
    platform ('ledger'|'sgx') plus SGX keys leaf/inter/sgx_root and auth; alter: None or
    {'target': name, 'pos': n, 'bit': b}"""

    def __init__(self, w, spec):
        self.w = w
        self.s = s = spec
        self.alter = spec.get("alter")
        self.events = []
        self.root_sk = sk_from_int(_h("root", s["root"]))
        self.device_sk = sk_from_int(_h("dev", s["device"]))
        self.att_sk = sk_from_int(_h("att", s["att"]))
        self.wallet = attest.wallet(s["wallet"])
        self.pubs = {p: pub_uncompressed(k) for p, k in self.wallet.items()}
        # (byte 0 of a public key is the point-encoding prefix: 04 -> 06/07 names the same key,
        #  so an alteration of "the key" is placed in its coordinates)
        w.pubkeys = {path_bin(p): self.pubs[p][:1] + self._alt("pubkey:" + p, self.pubs[p][1:])
                     for p in self.pubs}
        self.ud = None
        self.ui_msg = self.ui_sig = None
        self.seed = {}
        self.seed_received = None
        self.pin_set = None
        w.extra_handlers.update({0x44: self.h_seed, 0x07: self.h_wipe, 0x50: self.h_att,
                                 0xA0: self.h_sgx_onboard})
        w.admin_handler = self.h_admin
        self.sgx = None

    # ------------------------------------------------------------------ alterations
    def _alt(self, target, data):
        a = self.alter
        if a and a["target"] == target and len(data) > 0:
            self.events.append(("altered", target))
            return flip(data, a["pos"], a["bit"])
        return data

    # ------------------------------------------------------------------ onboarding
    def h_seed(self, w, d, a):
        if w.mode != BOOT or w.onboarded is True or len(d) != 2:
            raise SW(0x6A01)
        self.seed[d[0]] = d[1]
        self.events.append(("seed", d[0]))
        return bytes([0x80, 0x44])

    def h_wipe(self, w, d, a):
        if w.mode != BOOT or w.onboarded is True:
            raise SW(0x6A01)
        n = w.pinbuf.get(0, 0)
        pin = bytes(w.pinbuf.get(i, 0) for i in range(1, n + 1))
        w.pinbuf = {}
        if sorted(self.seed) != list(range(32)):
            raise SW(0x6A03)
        self.seed_received = bytes(self.seed[i] for i in range(32))
        w.pin = pin
        self.pin_set = pin
        w.onboarded = True
        w.retries = 3
        self.events.append(("wipe", pin))
        return bytes([0x80, 0x02, 0x00])

    def h_sgx_onboard(self, w, d, a):
        if w.mode != BOOT or w.onboarded is True or len(d) < 1 + 32:
            raise SW(0x6A01)
        self.seed_received = d[1:33]
        w.pin = d[33:]
        self.pin_set = w.pin
        w.onboarded = True
        self.events.append(("sgx_onboard", w.pin))
        return bytes([0x80, 0xA0, 0x01])

    # ------------------------------------------------------------------ endorsement (CLA E0)
    def h_admin(self, w, a):
        cmd = a[1]
        self.events.append(("admin", cmd))
        if w.mode != BOOT or not w.unlocked:
            raise SW(0x6982)
        if cmd == 0x04:
            return b""
        if cmd == 0x50:
            return bytes(4) + hashlib.sha256(b"nonce" + a).digest()[:8]
        if cmd == 0x51:
            return b""
        if cmd == 0x52:
            if a[2] == 0x80:
                return b"\x00"
            hdr = b"\x11\x22\x33"[: 1 + self.s["device"] % 3]
            pub = pub_uncompressed(self.device_sk)
            sig = sign(self.root_sk, bytes([0x02]) + hdr + pub)
            hdr2 = self._alt("device-header", hdr)
            pub2 = self._alt("device-pub", pub)
            sig2 = self._alt("device-sig", sig)
            return bytes([len(hdr2)]) + hdr2 + bytes([len(pub2)]) + pub2 + \
                bytes([len(sig2)]) + sig2
        if cmd == 0xC0:
            pub = pub_uncompressed(self.att_sk)
            sig = sign(self.device_sk, b"\xff" + pub)
            return self._alt("att-pub", pub) + self._alt("att-sig", sig)
        if cmd == 0xC2:
            return b""
        raise SW(0x6D00)

    # ------------------------------------------------------------------ attestation (0x50)
    def pkhash(self):
        return attest.pubkeys_hash(self.pubs)

    def h_att(self, w, d, a):
        if w.mode == BOOT:
            return self.h_ui_att(w, d)
        if w.mode == SIGNER:
            return self.h_signer_att(w, d)
        raise SW(0x6D00)

    def _page(self, data, page, size):
        chunks = [data[i:i + size] for i in range(0, len(data), size)] or [b""]
        if page >= len(chunks):
            raise SW(0x6A01)
        return (1 if page < len(chunks) - 1 else 0), chunks[page]

    def h_ui_att(self, w, d):
        s = self.s
        if not w.unlocked or w.onboarded is not True:
            raise SW(0x6A02)
        op = d[0]
        if op == 0x04:
            return bytes([0x80, 0x50, 4]) + self._alt("ui-hash", s["ui_hash"])
        if op == 0x01:
            if len(d) != 33:
                raise SW(0x6A01)
            self.ud = d[1:]
            btc = pub_compressed(self.wallet[attest.UI_PATH])
            self.ui_msg = attest.ui_message(s["ui_version"], self.ud, btc, s["signer_hash"],
                                            s["iteration"])
            self.ui_sig = sign(tweaked_sk(self.att_sk, s["ui_hash"]), self.ui_msg)
            return bytes([0x80, 0x50, 1])
        if self.ui_msg is None:
            raise SW(0x6A01)
        if op == 0x02:
            more, chunk = self._page(self._alt("ui-message", self.ui_msg), d[1],
                                     s.get("page", 80))
            return bytes([0x80, 0x50, 2, more]) + chunk
        if op == 0x03:
            return bytes([0x80, 0x50, 3]) + self._alt("ui-signature", self.ui_sig)
        raise SW(0x6A01)

    def signer_message(self, ud):
        s = self.s
        if s.get("legacy"):
            return attest.legacy_signer_message(s["version"], self.pkhash())
        plat3 = b"sgx" if s["platform"] == "sgx" else b"led"
        shape = s.get("grind_custom")
        if shape and s["platform"] == "sgx":
            # the device's clock is where it has to be for the message digest to have the
            # asked-for shape (a digest ending in a zero byte: one message in 256)
            import hashlib
            for k in range(2 ** 20):
                ts = (s["ts"] + k) % 2 ** 64
                d = hashlib.sha256(attest.powhsm_message(
                    s["version"], plat3, ud, self.pkhash(), s["best"], s["tx"], ts)).digest()
                if (shape == "ends-00" and d[-1] == 0) or (shape == "starts-00" and d[0] == 0):
                    s["ts"] = ts
                    break
        return attest.powhsm_message(s["version"], plat3, ud, self.pkhash(), s["best"], s["tx"],
                                     s["ts"])

    def h_signer_att(self, w, d):
        s = self.s
        op = d[0]
        if op == 0x01:
            if len(d) != 33:
                raise SW(0x6B10)
            self.ud = d[1:]
            self.sg_msg = self.signer_message(self.ud)
            if s["platform"] == "sgx":
                self.sgx = self.build_envelope(self.sg_msg)
                self.sg_env = self.sgx
                return bytes([0x80, 0x50, 1]) + b"\x00"     # SGX: signature lives in the envelope
            self.sg_env = self.sg_msg
            sig = sign(tweaked_sk(self.att_sk, s["signer_hash"]), self.sg_msg)
            return bytes([0x80, 0x50, 1]) + self._alt("signer-signature", sig)
        if op == 0x03:
            return bytes([0x80, 0x50, 3]) + self._alt("signer-hash", s["signer_hash"])
        if self.ud is None:
            raise SW(0x6B10)
        if op in (0x02, 0x04):
            if op == 0x02:
                data = self._alt("signer-message", self.sg_msg)
            elif s["platform"] == "sgx":
                data = self.sg_env
            else:
                data = self._alt("signer-message", self.sg_env)
            if s.get("legacy"):
                if op == 0x04:
                    raise SW(0x6D00)
                return bytes([0x80, 0x50, op]) + data
            more, chunk = self._page(data, d[1], s.get("page", 80))
            return bytes([0x80, 0x50, op, more]) + chunk
        raise SW(0x6B10)

    # ------------------------------------------------------------------ SGX envelope
    def build_envelope(self, custom):
        s = self.s
        spec = {"root": s["sgx_root"], "leaf": s["leaf"], "att": s["att"], "inter": [s["inter"]],
                "auth": s["auth"], "grind_auth": s.get("grind_auth"),
                "custom": self._alt("custom-in-quote", custom),
                "seed": s["tx"]}
        if s.get("cert_windows"):
            spec["windows"] = dict(s["cert_windows"])
        v = self.v2 = certs.V2Cert(spec)
        pem = b""
        for nm in v.chain:
            der = v.certs[nm]
            a = self.alter
            if a and a["target"] == "cert:" + nm:
                self.events.append(("altered", a["target"]))
                der = certs.flip_in_signed_or_signature(der, a["pos"], a["bit"])
            b64 = certs.der_to_b64(der)
            wrap = s.get("pem_wrap", 0)
            if wrap:
                # lines of 64 (RFC 7468, what openssl and Intel's services emit) or 76 characters
                b64 = "\n".join(b64[i:i + wrap] for i in range(0, len(b64), wrap))
            pem += (b"-----BEGIN CERTIFICATE-----\n" + b64.encode() +
                    b"\n-----END CERTIFICATE-----\n")
        if s.get("third_cert", True):
            pem += certs.cert_pem(v.root_cert)
        auth = self._alt("auth-data", v.auth)
        env = (self._alt("quote", v.quote) + struct.pack("<I", 64 + 64 + 384 + 64) +
               self._alt("quote-sig", certs.der_sig_to_raw64(v.sig_quote)) +
               self._alt("att-key", certs.pub_raw64(v.keys["attestation"])) +
               self._alt("qe-report", v.qe_rb) +
               self._alt("qe-sig", certs.der_sig_to_raw64(v.sig_att)) +
               struct.pack("<H", len(auth)) + auth +
               struct.pack("<HI", 5, len(pem)) + pem +
               self._alt("custom-tail", custom))
        return env
