"""Reference oracles written for the harness, independent of the code under test
(DESIGN.md section 4): RLP, BTC transaction/script serializer over an explicit AST, SHA-256
compression function (midstates), BIP32 path grammar, DER signature builder, Keccak-256."""
import hashlib
import struct

from Crypto.Hash import keccak as _keccak


# ------------------------------------------------------------------ RLP

def _len_be(n):
    return n.to_bytes((n.bit_length() + 7) // 8, "big")


def rlp_str(b):
    if len(b) == 1 and b[0] < 0x80:
        return bytes(b)
    if len(b) <= 55:
        return bytes([0x80 + len(b)]) + b
    ln = _len_be(len(b))
    return bytes([0xb7 + len(ln)]) + ln + b


def rlp_list_payload(items):
    return b"".join(rlp_str(i) for i in items)


def rlp_wrap_list(payload):
    if len(payload) <= 55:
        return bytes([0xc0 + len(payload)]) + payload
    ln = _len_be(len(payload))
    return bytes([0xf7 + len(ln)]) + ln + payload


def rlp_list(items):
    return rlp_wrap_list(rlp_list_payload(items))


def keccak256(b):
    return _keccak.new(digest_bits=256).update(b).digest()


# ------------------------------------------------------------------ SHA-256 compression

_K = [0x428a2f98, 0x71374491, 0xb5c0fbcf, 0xe9b5dba5, 0x3956c25b, 0x59f111f1, 0x923f82a4,
      0xab1c5ed5, 0xd807aa98, 0x12835b01, 0x243185be, 0x550c7dc3, 0x72be5d74, 0x80deb1fe,
      0x9bdc06a7, 0xc19bf174, 0xe49b69c1, 0xefbe4786, 0x0fc19dc6, 0x240ca1cc, 0x2de92c6f,
      0x4a7484aa, 0x5cb0a9dc, 0x76f988da, 0x983e5152, 0xa831c66d, 0xb00327c8, 0xbf597fc7,
      0xc6e00bf3, 0xd5a79147, 0x06ca6351, 0x14292967, 0x27b70a85, 0x2e1b2138, 0x4d2c6dfc,
      0x53380d13, 0x650a7354, 0x766a0abb, 0x81c2c92e, 0x92722c85, 0xa2bfe8a1, 0xa81a664b,
      0xc24b8b70, 0xc76c51a3, 0xd192e819, 0xd6990624, 0xf40e3585, 0x106aa070, 0x19a4c116,
      0x1e376c08, 0x2748774c, 0x34b0bcb5, 0x391c0cb3, 0x4ed8aa4a, 0x5b9cca4f, 0x682e6ff3,
      0x748f82ee, 0x78a5636f, 0x84c87814, 0x8cc70208, 0x90befffa, 0xa4506ceb, 0xbef9a3f7,
      0xc67178f2]
_H0 = [0x6a09e667, 0xbb67ae85, 0x3c6ef372, 0xa54ff53a, 0x510e527f, 0x9b05688c, 0x1f83d9ab,
       0x5be0cd19]


def _rotr(x, n):
    return ((x >> n) | (x << (32 - n))) & 0xffffffff


def sha256_compress(h, block):
    w = list(struct.unpack(">16I", block))
    for i in range(16, 64):
        s0 = _rotr(w[i - 15], 7) ^ _rotr(w[i - 15], 18) ^ (w[i - 15] >> 3)
        s1 = _rotr(w[i - 2], 17) ^ _rotr(w[i - 2], 19) ^ (w[i - 2] >> 10)
        w.append((w[i - 16] + s0 + w[i - 7] + s1) & 0xffffffff)
    a, b, c, d, e, f, g, hh = h
    for i in range(64):
        S1 = _rotr(e, 6) ^ _rotr(e, 11) ^ _rotr(e, 25)
        ch = (e & f) ^ (~e & 0xffffffff & g)
        t1 = (hh + S1 + ch + _K[i] + w[i]) & 0xffffffff
        S0 = _rotr(a, 2) ^ _rotr(a, 13) ^ _rotr(a, 22)
        mj = (a & b) ^ (a & c) ^ (b & c)
        t2 = (S0 + mj) & 0xffffffff
        hh, g, f, e, d, c, b, a = g, f, e, (d + t1) & 0xffffffff, c, b, a, (t1 + t2) & 0xffffffff
    return [(x + y) & 0xffffffff for x, y in zip(h, [a, b, c, d, e, f, g, hh])]


def sha256_midstate(data):
    assert len(data) % 64 == 0
    h = _H0
    for i in range(0, len(data), 64):
        h = sha256_compress(h, data[i:i + 64])
    return struct.pack(">8I", *h)


def sha256_full(data):
    """Plain SHA-256 built on the compression function above (self-check against hashlib)."""
    ml = len(data) * 8
    padded = data + b"\x80" + b"\x00" * ((55 - len(data)) % 64) + struct.pack(">Q", ml)
    return sha256_midstate(padded)


def selfcheck():
    for m in (b"", b"abc", bytes(range(200)), b"x" * 64, b"y" * 119):
        assert sha256_full(m) == hashlib.sha256(m).digest(), "sha256 reference broken"
    assert rlp_list([b"", b"\x01", b"a" * 60]) == b"\xf8\x40\x80\x01\xb8\x3c" + b"a" * 60
    assert keccak256(b"").hex().startswith("c5d24601")
    m = bytes(range(256)) * 3
    assert sha256_resume(sha256_midstate(m[:128]), 128, m[128:]) == hashlib.sha256(m).digest()


def compress_coinbase(full, k):
    """RSK 'compressed coinbase transaction': BE64 count of hashed bytes | midstate | tail."""
    return (k * 64).to_bytes(8, "big") + sha256_midstate(full[:k * 64]) + full[k * 64:]


def sha256_resume(midstate, counter, tail):
    """SHA-256 of a message of which the first `counter` bytes (a multiple of 64) are summed up
    in `midstate`: the tail is absorbed and the padding states the TOTAL bit length."""
    h = list(struct.unpack(">8I", midstate))
    total = counter + len(tail)
    padded = bytes(tail) + b"\x80" + b"\x00" * ((55 - total) % 64) + \
        struct.pack(">Q", (total * 8) & 0xFFFFFFFFFFFFFFFF)
    assert len(padded) % 64 == 0
    for i in range(0, len(padded), 64):
        h = sha256_compress(h, padded[i:i + 64])
    return struct.pack(">8I", *h)


def synthetic_coinbase_hash(counter, midstate, tail):
    """Hash of a compressed coinbase transaction given only as (count, midstate, tail)."""
    return hashlib.sha256(sha256_resume(midstate, counter, tail)).digest()[::-1]


def coinbase_hash(full):
    return hashlib.sha256(hashlib.sha256(full).digest()).digest()[::-1]


# ------------------------------------------------------------------ BTC tx over an AST

def varint(n):
    if n < 0xfd:
        return bytes([n])
    if n <= 0xffff:
        return b"\xfd" + struct.pack("<H", n)
    if n <= 0xffffffff:
        return b"\xfe" + struct.pack("<I", n)
    return b"\xff" + struct.pack("<Q", n)


def push(data, enc):
    n = len(data)
    if enc == "direct":
        assert n < 0x4c
        return bytes([n]) + data
    if enc == "pd1":
        assert n <= 0xff
        return b"\x4c" + bytes([n]) + data
    if enc == "pd2":
        assert n <= 0xffff
        return b"\x4d" + struct.pack("<H", n) + data
    assert enc == "pd4"
    return b"\x4e" + struct.pack("<I", n) + data


def minimal_push(data):
    n = len(data)
    if n < 0x4c:
        return push(data, "direct")
    if n <= 0xff:
        return push(data, "pd1")
    if n <= 0xffff:
        return push(data, "pd2")
    return push(data, "pd4")


def encodings_for(n):
    c = ["pd4"]
    if n <= 0xffff:
        c.append("pd2")
    if n <= 0xff:
        c.append("pd1")
    if n < 0x4c:
        c.append("direct")
    return c


# script ops in a case: ["push", data, enc] | ["op", byte]
def op_bytes(op):
    return push(op[1], op[2]) if op[0] == "push" else bytes([op[1]])


def op_canonical_forms(op):
    """The byte strings that count as 'the original last operation': its own bytes, or the
    minimal-length push of the same data."""
    forms = {op_bytes(op)}
    if op[0] == "push":
        forms.add(minimal_push(op[1]))
    return forms


def ser_tx(version, ins, outs, locktime):
    """ins: (prev_hash32, prev_n, script_bytes, seq); outs: (value, script)."""
    b = struct.pack("<i", version) + varint(len(ins))
    for (h, n, s, q) in ins:
        b += h + struct.pack("<I", n) + varint(len(s)) + s + struct.pack("<I", q)
    b += varint(len(outs))
    for (v, s) in outs:
        b += struct.pack("<q", v) + varint(len(s)) + s
    b += struct.pack("<I", locktime)
    return b


def tx_bytes(tx):
    """tx = [version, [[hash, n, [ops], seq]...], [[value, script]...], locktime] or, in the
    BIP144 serialization, with a fifth item: one witness stack (list of byte strings) per input."""
    v, ins, outs, lt = tx[:4]
    sins = [(h, n, b"".join(op_bytes(o) for o in ops), q) for (h, n, ops, q) in ins]
    if len(tx) > 4 and tx[4] is not None:
        return ser_tx_witness(v, sins, outs, lt, tx[4])
    return ser_tx(v, sins, outs, lt)


def ser_tx_witness(version, ins, outs, locktime, stacks):
    """BIP144: version, marker 00, flag 01, inputs, outputs, witness stacks, lock time."""
    body = ser_tx(version, ins, outs, locktime)
    n = len(struct.pack("<i", version))
    wit = b""
    for st in stacks:
        wit += varint(len(st)) + b"".join(varint(len(i)) + bytes(i) for i in st)
    return body[:n] + b"\x00\x01" + body[n:-4] + wit + body[-4:]


def parse_tx(raw):
    """Independent parser of a classic (non-witness) serialized transaction."""
    v, ins, outs, lt, wit = parse_tx_any(raw)
    if wit is not None:
        raise ValueError("witness serialization")
    return v, ins, outs, lt


def parse_tx_any(raw):
    """Independent parser of a serialized transaction, classic or BIP144; raises ValueError.
    -> (version, ins, outs, locktime, witness stacks or None)"""
    pos = 0

    def take(n):
        nonlocal pos
        if pos + n > len(raw):
            raise ValueError("truncated")
        r = raw[pos:pos + n]
        pos += n
        return r

    def vi():
        b = take(1)[0]
        if b < 0xfd:
            return b
        if b == 0xfd:
            return struct.unpack("<H", take(2))[0]
        if b == 0xfe:
            return struct.unpack("<I", take(4))[0]
        return struct.unpack("<Q", take(8))[0]
    version = struct.unpack("<i", take(4))[0]
    segwit = raw[4:6] == b"\x00\x01"
    if segwit:
        take(2)
    ins = []
    for _ in range(vi()):
        h = take(32)
        n = struct.unpack("<I", take(4))[0]
        s = take(vi())
        q = struct.unpack("<I", take(4))[0]
        ins.append((h, n, s, q))
    outs = []
    for _ in range(vi()):
        v = struct.unpack("<q", take(8))[0]
        s = take(vi())
        outs.append((v, s))
    wit = None
    if segwit:
        wit = [[take(vi()) for _ in range(vi())] for _ in ins]
    lt = struct.unpack("<I", take(4))[0]
    if pos != len(raw):
        raise ValueError("trailing data")
    return version, ins, outs, lt, wit


# ------------------------------------------------------------------ BIP32

def path_bin(p):
    els = p[2:].split("/")
    b = bytes([len(els)])
    for e in els:
        v = int(e.rstrip("'")) + (0x80000000 if e.endswith("'") else 0)
        b += struct.pack("<I", v)
    return b


AUTH_PATHS = ["m/44'/0'/0'/0/0", "m/44'/1'/0'/0/0"]
UNAUTH_PATHS = ["m/44'/137'/0'/0/0", "m/44'/137'/1'/0/0", "m/44'/1'/1'/0/0", "m/44'/1'/2'/0/0"]
ALL_PATHS = AUTH_PATHS + UNAUTH_PATHS


# ------------------------------------------------------------------ DER

def der_int(b):
    return b"\x02" + bytes([len(b)]) + b


def der_sig(r, s, first=0x30, trailing=b""):
    body = der_int(r) + der_int(s)
    return bytes([first, len(body)]) + body + trailing
