"""Runner: shards a check over worker processes, drives Hypothesis / enumeration, collects
coverage statistics, handles known findings, shrinking caps, replay files, evidence, exit codes.

Exit codes: 0 held on everything explored; 1 unlisted violation (VIOLATION line printed);
2 harness error or vacuous run (never prints VIOLATION).
"""
import collections
import glob
import hashlib
import importlib
import json
import multiprocessing as mp
import os
import queue as queue_mod
import sys
import time
import traceback

from .core import (VERIF, REPO, Violation, HarnessError, Out, dumps, loads, roundtrip,
                   fingerprint, abbreviate, exc_signature, innermost_repo_frame)

WORKERS = int(os.environ.get("VERIF_WORKERS", "16"))


def derive_seed(*parts):
    h = hashlib.sha256(":".join(str(p) for p in parts).encode()).digest()
    return int.from_bytes(h[:8], "big")


def load_findings():
    path = os.path.join(VERIF, "known_findings.json")
    if not os.path.exists(path):
        return []
    with open(path) as f:
        return json.load(f)["findings"]


# ------------------------------------------------------------------ worker side

class Ctx:
    """Per-worker collector handed to a stage's worker()."""

    def __init__(self, prop, stage, k, W, seed, tier, q, known_sigs, budget_s):
        self.prop, self.stage, self.k, self.W = prop, stage, k, W
        self.seed, self.tier, self.q = seed, tier, q
        self.known_sigs = known_sigs
        self.t0 = time.time()
        self.deadline = self.t0 + budget_s
        self.evaluations = 0
        self.skipped = 0
        self.labels = collections.Counter()
        self.nontrivial = set()
        self.samples = []        # (size, text)
        self.known_hits = collections.Counter()
        self.failed = False
        self.extra = {}

    def over_budget(self):
        return time.time() > self.deadline

    def ok(self, text, out):
        self.evaluations += 1
        for lab in out.labels:
            self.labels[lab] += 1
        if out.nontrivial:
            fp = out.fp if out.fp is not None else fingerprint(text)
            if fp not in self.nontrivial:
                self.nontrivial.add(fp)
                self._sample(text)

    def _sample(self, text):
        n = len(text)
        s = self.samples
        if len(s) < 2:
            s.append((n, text))
            return
        # keep first two, plus smallest and largest seen afterwards
        if len(s) < 4:
            s.append((n, text))
            return
        if n < s[2][0]:
            s[2] = (n, text)
        elif n > s[3][0]:
            s[3] = (n, text)

    def known(self, sig):
        for ks in self.known_sigs:
            if sig == ks or (ks.endswith("*") and sig.startswith(ks[:-1])):
                return True
        return False

    def fail(self, text, v):
        """Register a failing case. Returns True when it is a listed known finding (the search
        goes on), False when it is a new violation (already reported to the parent)."""
        self.evaluations += 1
        if self.known(v.sig):
            self.known_hits[v.sig] += 1
            self.labels["known-finding-hit"] += 1
            return True
        self.failed = True
        self.q.put(("fail", self.k, self.stage, v.sig, v.detail, text))
        return False

    def finish(self):
        self.q.put(("done", self.k, self.stage, {
            "evaluations": self.evaluations, "skipped": self.skipped,
            "labels": dict(self.labels), "nontrivial": self.nontrivial,
            "samples": self.samples, "known_hits": dict(self.known_hits),
            "extra": self.extra, "wall": time.time() - self.t0}))


CASE_WATCHDOG_S = int(os.environ.get("VERIF_CASE_WATCHDOG", "60"))


class CaseTimeout(BaseException):
    pass


def _repo_frame_of(frame):
    """(file, function) of the innermost frame of the code under test on the stack, or None."""
    from .core import REPO
    f = frame
    while f is not None:
        fn = f.f_code.co_filename
        if fn.startswith(REPO + os.sep):
            return (os.path.relpath(fn, REPO), f.f_code.co_name)
        f = f.f_back
    return None


def call_case(run, case):
    """Run one case through the check's run_case and classify whatever comes out of it.

    A case that does not come back is a violation when it is stuck inside the code under test,
    a harness error otherwise. 'Does not come back' must not depend on how loaded the machine
    is: a timer ticks every two seconds of wall-clock time and the case is given up when it has
    used CASE_WATCHDOG_S seconds of CPU time (busy), or when CASE_WATCHDOG_S seconds have
    passed and it has used no CPU time for the last twenty of them (blocked: asleep, waiting
    for a peer that never answers), or after fifteen times the allowance in any event. A case
    that computes on a starved machine keeps being served.

    The code under test catches BaseException in places (hsm2dongle.py around every exchange),
    so the time-out is raised again on every tick until it gets out, and the verdict is fixed
    when the timer first fires - whatever the case returns after that is not believed."""
    import signal
    import threading
    use_alarm = hasattr(signal, "SIGALRM") and threading.current_thread() is \
        threading.main_thread()
    if not use_alarm:
        return _call_case(run, case)
    st = {"fired": False, "frame": None, "cpu0": time.process_time(), "t0": time.monotonic(),
          "quiet": 0.0}
    st["last_cpu"], st["last_t"] = st["cpu0"], st["t0"]

    def on_tick(signum, frame):
        now, cpu = time.monotonic(), time.process_time()
        signal.setitimer(signal.ITIMER_REAL, 0.2 if st["fired"] else 2.0)
        if not st["fired"]:
            if cpu - st["last_cpu"] < 0.02:
                st["quiet"] += now - st["last_t"]
            else:
                st["quiet"] = 0.0
            st["last_cpu"], st["last_t"] = cpu, now
            wall = now - st["t0"]
            if not (cpu - st["cpu0"] > CASE_WATCHDOG_S or
                    (wall > CASE_WATCHDOG_S and st["quiet"] >= 20) or
                    wall > 15 * CASE_WATCHDOG_S):
                return
            st["fired"] = True
            st["frame"] = _repo_frame_of(frame)
        raise CaseTimeout()
    signal.signal(signal.SIGALRM, on_tick)
    signal.setitimer(signal.ITIMER_REAL, 2.0)
    out = exc = None
    try:
        try:
            out = _call_case(run, case)
        except CaseTimeout:
            pass
        except BaseException as e:   # noqa
            exc = e
    finally:
        signal.setitimer(signal.ITIMER_REAL, 0)
        signal.signal(signal.SIGALRM, signal.SIG_DFL)
    if st["fired"]:
        if st["frame"]:
            raise Violation("does-not-terminate@%s:%s" % st["frame"], "no result after %d s "
                            "(CPU %.0f s)" % (time.monotonic() - st["t0"],
                                              time.process_time() - st["cpu0"]))
        raise HarnessError("case did not finish within its allowance (%d s wall, %.0f s CPU; "
                           "stuck outside the code under test)" % (
                               time.monotonic() - st["t0"], time.process_time() - st["cpu0"]))
    if exc is not None:
        raise exc
    return out


def _call_case(run, case):
    try:
        out = run(case)
    except Violation:
        raise
    except HarnessError:
        raise
    except RecursionError as e:
        if innermost_repo_frame(e):
            raise Violation(exc_signature(e), repr(e)[:300])
        raise
    except Exception as e:   # noqa
        # An exception that escaped run_case. If it was raised inside the code under test the
        # check did not expect it there: that is a violation of the property being exercised
        # (every check states when raising is allowed and catches those cases itself).
        if innermost_repo_frame(e):
            tb = "".join(traceback.format_exception(type(e), e, e.__traceback__))[-1500:]
            raise Violation(exc_signature(e), tb)
        raise
    if out is None:
        out = Out()
    return out


class HypStage:
    """Hypothesis-driven stage. `strategy(tier)` builds the strategy in the worker."""
    kind = "hypothesis"

    def __init__(self, name, strategy, run, examples, budget_s=None, workers=None,
                 shrink=True):
        self.name, self.strategy, self.run = name, strategy, run
        self.examples = examples          # {'quick': per-worker, 'thorough': per-worker}
        self.budget_s = budget_s or {"quick": 120, "thorough": 1200}
        self.workers = workers
        self.shrink = shrink
        self.exhaustive = False

    def worker(self, ctx):
        import hypothesis
        from hypothesis import given, settings, HealthCheck, Phase, Verbosity
        strat = self.strategy(ctx.tier)
        n = self.examples[ctx.tier]
        phases = [Phase.generate] + ([Phase.shrink] if self.shrink else [])
        stage = self

        def test(case):
            if ctx.over_budget() and not ctx.failed:
                ctx.skipped += 1
                return
            case = roundtrip(case)
            text = dumps(case)
            try:
                out = call_case(stage.run, case)
            except Violation as v:
                if ctx.fail(text, v):
                    return
                raise
            ctx.ok(text, out)

        wrapped = hypothesis.seed(ctx.seed)(settings(
            max_examples=n, database=None, deadline=None, derandomize=False,
            report_multiple_bugs=False, phases=phases, verbosity=Verbosity.quiet,
            suppress_health_check=[HealthCheck.too_slow, HealthCheck.data_too_large,
                                   HealthCheck.large_base_example])(given(strat)(test)))
        try:
            wrapped()
        except Violation:
            pass   # already reported through ctx.fail (last report = smallest found)
        except Exception:
            # e.g. hypothesis.errors.FlakyFailure when a schedule-dependent failure does not
            # reproduce on Hypothesis's final replay: the failure itself was already reported
            if not ctx.failed:
                raise


class EnumStage:
    """Enumerated finite domain. `cases(tier, seed)` returns a sequence (len, indexing);
    worker k takes indices k, k+W, ..."""
    kind = "enumeration"

    def __init__(self, name, cases, run, exhaustive=None, budget_s=None, workers=None):
        self.name, self.cases, self.run = name, cases, run
        self.exhaustive_tiers = exhaustive or {}
        self.budget_s = budget_s or {"quick": 120, "thorough": 1800}
        self.workers = workers

    def worker(self, ctx):
        seq = self.cases(ctx.tier, ctx.seed_base)
        total = len(seq)
        ctx.extra["domain_size"] = total
        done_all = True
        for i in range(ctx.k, total, ctx.W):
            if ctx.over_budget():
                ctx.skipped += len(range(i, total, ctx.W))
                done_all = False
                break
            case = roundtrip(seq[i])
            text = dumps(case)
            try:
                out = call_case(self.run, case)
            except Violation as v:
                ctx.fail(text, v)
                continue
            ctx.ok(text, out)
        ctx.extra["complete"] = done_all


class FuzzStage:
    """Coverage-guided stage: each worker runs one atheris/libFuzzer campaign in a subprocess
    (vlib/fuzz.py) with the check's oracle inside the target. jobs = [(mode, seeded)], mode in
    {'raw', 'hyp'}; seeds(tier) -> list of bytes for the seeded corpus; to_case(mode, data) turns a
    crashing input into a replayable case; run is the check's run_case."""
    kind = "atheris"

    def __init__(self, name, prop, jobs, runs, run, to_case, seeds=None, budget_s=None,
                 max_len=4096, tokens=None):
        self.tokens = tokens or []
        self.name, self.prop, self.jobs, self.runs = name, prop, jobs, runs
        self.run, self.to_case, self.seeds = run, to_case, seeds
        self.budget_s = budget_s or {"quick": 60, "thorough": 600}
        self.workers = len(jobs)
        self.max_len = max_len

    def worker(self, ctx):
        import glob as _glob
        import shutil
        import subprocess
        import tempfile
        mode, seeded = self.jobs[ctx.k]
        wd = tempfile.mkdtemp(prefix="verif-fuzz-")
        try:
            corpus = os.path.join(wd, "corpus")
            os.makedirs(corpus)
            if seeded and self.seeds:
                for i, b in enumerate(self.seeds(ctx.tier)):
                    with open(os.path.join(corpus, "seed%03d" % i), "wb") as f:
                        f.write(b)
            statsfile = os.path.join(wd, "stats.json")
            dictfile = os.path.join(wd, "tokens.dict")
            with open(dictfile, "w") as f:
                for i, tok in enumerate(self.tokens):
                    f.write('t%d="%s"\n' % (i, "".join(
                        ch if 32 <= ord(ch) < 127 and ch not in '"\\' else "\\x%02x" % ord(ch)
                        for ch in tok)))
            budget = self.budget_s[ctx.tier]
            cmd = [sys.executable, "-m", "vlib.fuzz", self.prop, mode, statsfile, corpus,
                   "-runs=%d" % self.runs[ctx.tier], "-seed=%d" % (ctx.seed % (2 ** 31 - 1) + 1),
                   "-artifact_prefix=" + os.path.join(wd, "crash-"), "-max_len=%d" % self.max_len,
                   "-max_total_time=%d" % max(5, int(budget * 0.8)), "-timeout=120",
                   "-rss_limit_mb=4096", "-verbosity=1"] + (
                       ["-dict=" + dictfile] if self.tokens else [])
            env = dict(os.environ, PYTHONPATH=VERIF + os.pathsep + os.environ.get("PYTHONPATH", ""))
            try:
                pr = subprocess.run(cmd, cwd=VERIF, env=env, stdout=subprocess.PIPE,
                                    stderr=subprocess.STDOUT, timeout=budget * 1.5 + 60)
                outtxt = pr.stdout.decode("utf-8", "replace")
                rc = pr.returncode
            except subprocess.TimeoutExpired as e:
                outtxt = (e.stdout or b"").decode("utf-8", "replace")
                rc = -9
            label = "fuzz:%s:%s" % (mode, "seeded" if seeded else "empty")
            if "No module named 'atheris'" in outtxt or "ModuleNotFoundError" in outtxt and \
                    "atheris" in outtxt:
                ctx.labels["atheris-unavailable"] += 1
                return
            st = {"execs": 0, "nontrivial": 0}
            if os.path.exists(statsfile):
                try:
                    with open(statsfile) as f:
                        st = json.load(f)
                except Exception:
                    pass
            ctx.evaluations += int(st.get("execs", 0))
            ctx.labels[label] += int(st.get("execs", 0))
            for i in range(int(st.get("nontrivial", 0))):
                ctx.nontrivial.add(fingerprint("%s:%d" % (self.name, i)))
            import re as _re
            m = _re.findall(r"cov: (\d+)", outtxt)
            if m:
                ctx.extra["fuzz_cov_edges_%s_%s" % (mode, "seeded" if seeded else "empty")] = \
                    int(m[-1])
            crashes = sorted(_glob.glob(os.path.join(wd, "crash-*")))
            for cpath in crashes:
                with open(cpath, "rb") as f:
                    data = f.read()
                case = self.to_case(mode, data)
                text = dumps(case)
                try:
                    call_case(self.run, loads(text))
                except Violation as v:
                    ctx.fail(text, v)
                    continue
                raise HarnessError("fuzz crash %s did not reproduce in-process; output tail: %s"
                                   % (os.path.basename(cpath), outtxt[-800:]))
            if rc == -9 and not crashes:
                # the campaign did not finish within the stage's wall-clock allowance (a
                # heavily loaded machine): what it explored held; nothing more is concluded
                ctx.labels["fuzz-budget-exhausted"] += 1
                ctx.skipped += 1
                return
            if rc != 0 and not crashes:
                raise HarnessError("fuzz job %s exited %r without a crash artifact: %s" % (
                    label, rc, outtxt[-1200:]))
            if st.get("execs", 0) and ctx.samples == [] and ctx.nontrivial:
                ctx.samples.append((40, dumps({"fuzz_job": label, "execs": st["execs"]})))
        finally:
            shutil.rmtree(wd, ignore_errors=True)


def _worker_main(modname, stage_idx, k, W, seed_base, tier, q, known_sigs):
    try:
        import logging
        logging.disable(logging.CRITICAL)
        sys.setrecursionlimit(10000)
        mod = importlib.import_module(modname)
        stage = mod.stages(tier)[stage_idx]
        seed = derive_seed(seed_base, mod.ID, stage.name, k)
        ctx = Ctx(mod.ID, stage.name, k, W, seed, tier, q, known_sigs,
                  stage.budget_s[tier])
        ctx.seed_base = seed_base
        stage.worker(ctx)
        ctx.finish()
    except BaseException as e:   # noqa
        q.put(("herr", k, stage_idx, "".join(
            traceback.format_exception(type(e), e, e.__traceback__))[-3000:]))


# ------------------------------------------------------------------ parent side

class _ConnQueue:
    """What a worker reports through: its own one-way pipe to the parent. (A multiprocessing.Queue
    shared by all workers deadlocks the whole stage when a worker is terminated while it holds
    the queue's write lock or has written half a message; with one pipe per worker the damage
    of a terminate stays with that worker, whose pipe the parent then stops reading.)"""

    def __init__(self, conn):
        self.conn = conn

    def put(self, obj):
        self.conn.send(obj)


def _cover_start():
    """Development aid (tools/coverage_all): with VERIF_COVER=<dir> every process records which
    lines of the code under test it executes. No effect on what a check decides."""
    d = os.environ.get("VERIF_COVER")
    if not d:
        return None
    import coverage
    from .core import MIDDLEWARE
    cur = coverage.Coverage.current()
    if cur is not None:
        cur.stop()
    os.makedirs(d, exist_ok=True)
    cov = coverage.Coverage(data_file=os.path.join(d, "cov"), data_suffix=True,
                            source=[MIDDLEWARE], concurrency=["thread"])
    cov.start()
    return cov


def _cover_stop(cov):
    if cov is not None:
        cov.stop()
        cov.save()


def _worker_entry(modname, stage_idx, k, W, seed_base, tier, conn, known_sigs):
    cov = _cover_start()
    try:
        _worker_main(modname, stage_idx, k, W, seed_base, tier, _ConnQueue(conn), known_sigs)
    finally:
        _cover_stop(cov)
        try:
            conn.close()
        except Exception:   # noqa
            pass


def run_stage(mod, stage_idx, stage, tier, seed_base, known_sigs, shrink_cap):
    from multiprocessing.connection import wait as conn_wait
    W = stage.workers or WORKERS
    ctxm = mp.get_context("fork")
    procs = []
    conns = {}
    for k in range(W):
        rd, wr = ctxm.Pipe(duplex=False)
        p = ctxm.Process(target=_worker_entry,
                         args=(mod.__name__, stage_idx, k, W, seed_base, tier, wr, known_sigs))
        p.daemon = True
        p.start()
        wr.close()
        procs.append(p)
        conns[k] = rd
    alive = set(range(W))
    reported = set()
    first_fail = {}
    fails = {}          # sig -> smallest (detail, text) reported by any worker
    stats = []
    herr = None
    hard_deadline = time.time() + stage.budget_s[tier] * 1.5 + shrink_cap + 60

    def drop(k):
        alive.discard(k)
        c = conns.pop(k, None)
        if c is not None:
            try:
                c.close()
            except Exception:   # noqa
                pass

    while alive:
        by_conn = {conns[k]: k for k in alive if k in conns}
        ready = conn_wait(list(by_conn), timeout=0.5) if by_conn else []
        now = time.time()
        for c in ready:
            k = by_conn[c]
            try:
                msg = c.recv()
            except (EOFError, OSError):
                # the worker is gone and has said all it had to say
                if k not in first_fail and k not in reported:
                    herr = herr or "worker %d of stage %s died without reporting" % (
                        k, stage.name)
                drop(k)
                continue
            if msg[0] == "fail":
                _, kk, _, sig, detail, text = msg
                first_fail.setdefault(kk, now)
                _keep(fails, sig, detail, text)
            elif msg[0] == "done":
                stats.append(msg[3])
                reported.add(msg[1])
                drop(msg[1])
            elif msg[0] == "herr":
                herr = msg[3]
                reported.add(msg[1])
                drop(msg[1])
        for k in list(alive):
            if k in first_fail and now - first_fail[k] > shrink_cap:
                # still shrinking: what it has reported so far stands
                procs[k].terminate()
                drop(k)
        if now > hard_deadline:
            for k in list(alive):
                procs[k].terminate()
                drop(k)
            herr = herr or "stage %s exceeded its hard wall-clock limit" % stage.name
            break
    for p in procs:
        p.join(timeout=5)
        if p.is_alive():
            p.kill()
            p.join(timeout=5)
    return stats, fails, herr


def _keep(fails, sig, detail, text):
    cur = fails.get(sig)
    if cur is None or len(text) <= len(cur[1]):
        fails[sig] = (detail, text)


def merge(stats_list):
    agg = {"evaluations": 0, "skipped": 0, "labels": collections.Counter(),
           "nontrivial": set(), "samples": [], "known_hits": collections.Counter(),
           "extra": {}, "complete": True}
    for s in stats_list:
        agg["evaluations"] += s["evaluations"]
        agg["skipped"] += s["skipped"]
        agg["labels"].update(s["labels"])
        agg["nontrivial"] |= s["nontrivial"]
        agg["samples"].extend(s["samples"])
        agg["known_hits"].update(s["known_hits"])
        for kx, vx in s["extra"].items():
            if kx == "complete":
                agg["complete"] = agg["complete"] and vx
            elif isinstance(vx, (int, float)) and kx != "domain_size":
                agg["extra"][kx] = agg["extra"].get(kx, 0) + vx
            else:
                agg["extra"][kx] = vx
    return agg


def pick_samples(samples, limit=5):
    if not samples:
        return []
    samples = sorted(set(samples))
    picks = [samples[0], samples[-1], samples[len(samples) // 2]]
    step = max(1, len(samples) // limit)
    picks += samples[::step]
    seen, out = set(), []
    for n, t in picks:
        if t in seen:
            continue
        seen.add(t)
        out.append(abbreviate(t))
        if len(out) >= limit:
            break
    return out


def write_replay(prop, stage, sig, detail, text, seed, tier):
    d = os.path.join(VERIF, "replays", prop, "found")
    os.makedirs(d, exist_ok=True)
    h = hashlib.sha1((stage + sig + text).encode()).hexdigest()[:12]
    path = os.path.join(d, h + ".json")
    with open(path, "w") as f:
        json.dump({"property": prop, "stage": stage, "signature": sig, "violation": detail,
                   "seed": seed, "tier": tier, "case": json.loads(text)}, f, indent=1)
    return path


def replay_file(mod, path):
    """Plain regression form: no Hypothesis, just run_case on the stored case."""
    with open(path) as f:
        doc = json.load(f)
    st = {s.name: s for s in mod.stages("quick")}
    if doc["stage"] not in st:
        raise HarnessError("replay %s names unknown stage %s" % (path, doc["stage"]))
    case = loads(json.dumps(doc["case"]))
    try:
        call_case(st[doc["stage"]].run, case)
    except Violation as v:
        return v
    return None


def regress(mod, findings):
    """Replay committed regression inputs. Returns (known_lines, violations)."""
    known_lines, viols = [], []
    mine = [f for f in findings if f["property"] == mod.ID]
    for f in mine:
        path = os.path.join(VERIF, f["replay"])
        v = replay_file(mod, path)
        if f["status"] == "known":
            if v is not None and v.sig == f["signature"]:
                known_lines.append("KNOWN-FINDING: property=%s %s" % (mod.ID, f["what"]))
            elif v is not None:
                viols.append((path, v))
        else:   # fixed: suppresses nothing, must pass
            if v is not None:
                viols.append((path, v))
    listed = {os.path.join(VERIF, f["replay"]) for f in mine}
    for path in sorted(glob.glob(os.path.join(VERIF, "replays", mod.ID, "regress", "*.json"))):
        if path in listed:
            continue
        v = replay_file(mod, path)
        if v is not None:
            viols.append((path, v))
    return known_lines, viols, len(mine)


def main(argv):
    import argparse
    ap = argparse.ArgumentParser()
    ap.add_argument("prop")
    ap.add_argument("--tier", default=os.environ.get("VERIF_TIER", "quick"),
                    choices=["quick", "thorough"])
    ap.add_argument("--replay")
    ap.add_argument("--stage", help="run only this stage (development aid)")
    ap.add_argument("--no-evidence", action="store_true")
    a = ap.parse_args(argv)
    prop = a.prop.upper()
    t0 = time.time()
    try:
        seed_base = int(os.environ.get("VERIF_SEED", "1"))
    except ValueError:
        seed_base = 1
    cov = None
    # every temporary file or directory of this run (the checks', the code under test's) lives
    # under one directory that is removed when the run ends - workers are terminated without
    # notice, so nothing can be left to their exit handlers
    import shutil
    import tempfile
    tmp_root = tempfile.mkdtemp(prefix="verif-run-%s-" % prop)
    saved_tmp = (os.environ.get("TMPDIR"), tempfile.tempdir)
    os.environ["TMPDIR"] = tmp_root
    tempfile.tempdir = tmp_root
    try:
        from . import env
        env.prepare()
        cov = _cover_start()
        mod = importlib.import_module("checks.%s" % prop.lower())
        if a.replay:
            v = replay_file(mod, a.replay)
            if v is not None:
                print("VIOLATION property=%s replay=%s" % (prop, os.path.abspath(a.replay)))
                print("  signature: %s\n  %s" % (v.sig, v.detail[:1500]))
                return 1
            print("replay %s: property %s held" % (a.replay, prop))
            return 0
        findings = load_findings()
        known_sigs = [f["signature"] for f in findings
                      if f["property"] == prop and f["status"] == "known"]
        known_lines, reg_viol, n_reg = regress(mod, findings)
        violations = []      # (path, sig, detail)
        for path, v in reg_viol:
            violations.append((path, v.sig, v.detail))
        shrink_cap = 45 if a.tier == "quick" else 300
        total = None
        stage_reports = []
        all_stages = mod.stages(a.tier)
        for idx, stage in enumerate(all_stages):
            if a.stage and stage.name != a.stage:
                continue
            stats, fails, herr = run_stage(mod, idx, stage, a.tier, seed_base, known_sigs,
                                           shrink_cap)
            if herr and (fails or violations):
                # a harness error in one worker (e.g. its case was still stuck when the stage's
                # allowance ran out) does not unsay the failing cases the others have reported:
                # each is a concrete input with a replay file
                for line in known_lines:
                    print(line)
                for sig, (detail, text) in sorted(fails.items()):
                    path = write_replay(prop, stage.name, sig, detail, text, seed_base, a.tier)
                    violations.append((path, sig, detail))
                for path, sig, detail in violations:
                    print("VIOLATION property=%s replay=%s" % (prop, path))
                    print("  signature: %s\n  %s" % (sig, detail[:1200].replace("\n", "\n  ")))
                print("NOTE property=%s stage=%s also had a harness error: %s" % (
                    prop, stage.name, str(herr)[:600].replace("\n", " | ")))
                return 1
            if herr:
                print("HARNESS-ERROR property=%s stage=%s\n%s" % (prop, stage.name, herr))
                return 2
            agg = merge(stats)
            for sig, (detail, text) in sorted(fails.items()):
                path = write_replay(prop, stage.name, sig, detail, text, seed_base, a.tier)
                violations.append((path, sig, detail))
            exhaustive = bool(getattr(stage, "exhaustive_tiers", {}).get(a.tier)) and \
                agg["complete"] and agg["skipped"] == 0
            stage_reports.append({
                "stage": stage.name, "kind": stage.kind, "evaluations": agg["evaluations"],
                "distinct_nontrivial": len(agg["nontrivial"]), "skipped_over_budget":
                agg["skipped"], "exhaustive": exhaustive, "labels":
                dict(sorted(agg["labels"].items())), **{k: v for k, v in agg["extra"].items()
                                                        if k != "complete"}})
            if total is None:
                total = agg
                total["exhaustive_all"] = exhaustive
            else:
                total["evaluations"] += agg["evaluations"]
                total["skipped"] += agg["skipped"]
                total["labels"].update(agg["labels"])
                total["nontrivial"] |= agg["nontrivial"]
                total["samples"].extend(agg["samples"])
                total["known_hits"].update(agg["known_hits"])
                total["exhaustive_all"] = total["exhaustive_all"] and exhaustive
        if total is None:
            raise HarnessError("no stage ran")
        # fail closed on vacuity
        missing = []
        if not a.stage and not violations:
            for lab in getattr(mod, "REQUIRED_LABELS", {}).get(a.tier, ()):
                # "a|b": either class will do (e.g. a class that only shows while a known
                # finding is still open, or its counterpart once the defect is repaired)
                if all(total["labels"].get(x, 0) == 0 for x in lab.split("|")):
                    missing.append(lab)
            gate = getattr(mod, "gate", None)
            if gate is not None:
                missing.extend(gate(a.tier, total["labels"], total["evaluations"]) or [])
        wall = time.time() - t0
        if not a.no_evidence and not a.stage:
            ev = {
                "property_id": prop, "tier": a.tier, "seed": seed_base, "level": mod.LEVEL,
                "coverage": {
                    "evaluations": total["evaluations"],
                    "distinct_nontrivial": len(total["nontrivial"]),
                    "rule": mod.RULE,
                    "samples": pick_samples(total["samples"]),
                    "exhaustive": bool(total["exhaustive_all"]),
                    "labels": dict(sorted(total["labels"].items())),
                    "stages": stage_reports,
                    "known_finding_hits": dict(total["known_hits"]),
                    "regression_replays": n_reg,
                    "skipped_over_budget": total["skipped"],
                    "repo": REPO,
                },
                "assumptions": list(mod.ASSUMPTIONS),
                "wall_s": round(wall, 2),
                "violations": len(violations),
            }
            os.makedirs(os.path.join(VERIF, "evidence"), exist_ok=True)
            with open(os.path.join(VERIF, "evidence", prop + ".json"), "w") as f:
                json.dump(ev, f, indent=1, sort_keys=True)
                f.write("\n")
        for line in known_lines:
            print(line)
        if violations:
            for path, sig, detail in violations:
                print("VIOLATION property=%s replay=%s" % (prop, path))
                print("  signature: %s\n  %s" % (sig, detail[:1200].replace("\n", "\n  ")))
            return 1
        if missing:
            print("HARNESS-ERROR property=%s vacuous run: required classes never produced: %s"
                  % (prop, ", ".join(missing)))
            return 2
        print("OK property=%s tier=%s seed=%d evaluations=%d distinct_nontrivial=%d "
              "known_hits=%d wall=%.1fs%s" % (
                  prop, a.tier, seed_base, total["evaluations"], len(total["nontrivial"]),
                  sum(total["known_hits"].values()), wall,
                  " exhaustive" if total["exhaustive_all"] else ""))
        return 0
    except HarnessError as e:
        print("HARNESS-ERROR property=%s %s" % (prop, e))
        return 2
    except Exception:   # noqa
        print("HARNESS-ERROR property=%s\n%s" % (prop, traceback.format_exc()))
        return 2
    finally:
        _cover_stop(cov)
        tempfile.tempdir = saved_tmp[1]
        if saved_tmp[0] is None:
            os.environ.pop("TMPDIR", None)
        else:
            os.environ["TMPDIR"] = saved_tmp[0]
        shutil.rmtree(tmp_root, ignore_errors=True)
