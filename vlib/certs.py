"""Builders for attestation certificates (harness side) and independent verifiers.

Version 1 (Ledger): secp256k1 chains signed with the pure-Python `ecdsa` package (the code
under test verifies with libsecp256k1). Keys are derived from drawn integers so cases are
reproducible.
"""
import hashlib
import hmac

import ecdsa
from ecdsa.util import sigencode_der_canonize, sigdecode_der

SECP = ecdsa.SECP256k1
N = SECP.order
V1_NAMES = ["device", "attestation", "ui", "signer"]


def sk_from_int(k):
    k = (int(k) % (N - 1)) + 1
    return ecdsa.SigningKey.from_secret_exponent(k, curve=SECP, hashfunc=hashlib.sha256)


def pub_uncompressed(sk_or_vk):
    vk = sk_or_vk.get_verifying_key() if hasattr(sk_or_vk, "get_verifying_key") else sk_or_vk
    return b"\x04" + vk.to_string()


def pub_compressed(sk_or_vk):
    vk = sk_or_vk.get_verifying_key() if hasattr(sk_or_vk, "get_verifying_key") else sk_or_vk
    return vk.to_string("compressed")


def tweak_scalar(tweak_bytes, parent_pub_uncompressed):
    return int.from_bytes(hmac.new(tweak_bytes, parent_pub_uncompressed,
                                   hashlib.sha256).digest(), "big")


def tweaked_sk(parent_sk, tweak_bytes):
    t = tweak_scalar(tweak_bytes, pub_uncompressed(parent_sk))
    k = (parent_sk.privkey.secret_multiplier + t) % N
    if k == 0:
        k = 1
    return ecdsa.SigningKey.from_secret_exponent(k, curve=SECP, hashfunc=hashlib.sha256)


def sign(sk, message):
    return sk.sign_deterministic(message, hashfunc=hashlib.sha256,
                                 sigencode=sigencode_der_canonize)


def verify_independent(pub_bytes, message, sig, tweak_bytes=None):
    """Verification with the `ecdsa` package and explicit point addition for the tweak."""
    try:
        if len(pub_bytes) not in (33, 65):
            return False             # libsecp256k1 parses 33- and 65-byte encodings only
        if pub_bytes[0] in (6, 7):
            return None              # hybrid encoding: libraries differ, not asserted
        if (len(pub_bytes) == 65) != (pub_bytes[0] == 4):
            return False
        vk = ecdsa.VerifyingKey.from_string(pub_bytes, curve=SECP, hashfunc=hashlib.sha256)
        if tweak_bytes is not None:
            t = tweak_scalar(tweak_bytes, b"\x04" + vk.to_string())
            if t >= N:
                return False
            point = vk.pubkey.point + SECP.generator * t
            vk = ecdsa.VerifyingKey.from_public_point(point, curve=SECP,
                                                      hashfunc=hashlib.sha256)
        r, s = sigdecode_der(sig, N)
        try:
            ok = bool(vk.verify(sig, message, hashfunc=hashlib.sha256, sigdecode=sigdecode_der))
        except Exception:
            ok = False
        if ok and s > N // 2:
            return None          # high-S: mathematically valid, libsecp256k1 refuses; ambiguous
        return ok
    except Exception:
        return False


def v1_extract(name, message):
    if name == "device":
        return message[-65:]
    if name == "attestation":
        return message[1:]
    return message


def v1_message_for(name, pub, filler):
    """A message whose extractor yields `pub` (65-byte uncompressed or 33-byte compressed key;
    the device message carries the key in its last 65 bytes, uncompressed only)."""
    if name == "device":
        return filler + pub
    if name == "attestation":
        return b"\xff" + pub
    return pub


class V1Cert:
    """elements: name -> dict(signed_by, message, signature, tweak|None); targets: list"""

    def __init__(self):
        self.elements = {}
        self.order = []
        self.targets = []

    def to_dict(self):
        els = []
        for n in self.order:
            e = self.elements[n]
            d = {"name": n, "message": e["message"].hex(), "signature": e["signature"].hex(),
                 "signed_by": e["signed_by"]}
            if e.get("tweak") is not None:
                d["tweak"] = e["tweak"].hex()
            els.append(d)
        return {"version": 1, "targets": list(self.targets), "elements": els}

    def expected(self, root_pub):
        """Independent walk: target -> (True, value_hex, tweak_hex|None) | (False, name) |
        None when some link on the path is ambiguous (high-S)."""
        res = {}
        for t in self.targets:
            path = []
            cur = t
            while True:
                path.append(cur)
                p = self.elements[cur]["signed_by"]
                if p == "root":
                    break
                cur = p
            path.reverse()
            certifier_pub = root_pub
            verdict = None
            for name in path:
                e = self.elements[name]
                ok = verify_independent(certifier_pub, e["message"], e["signature"],
                                        e.get("tweak"))
                if ok is None:
                    verdict = "ambiguous"
                    break
                if not ok:
                    verdict = (False, name)
                    break
                certifier_pub = v1_extract(name, e["message"])
            if verdict is None:
                e = self.elements[t]
                verdict = (True, v1_extract(t, e["message"]).hex(),
                           e["tweak"].hex() if e.get("tweak") is not None else None)
            res[t] = verdict
        return res


# ====================================================================== version 2 (SGX)
import base64          # noqa: E402
import datetime as _dt  # noqa: E402
import struct           # noqa: E402

from cryptography import x509                                     # noqa: E402
from cryptography.x509.oid import NameOID                         # noqa: E402
from cryptography.hazmat.primitives import hashes, serialization  # noqa: E402
from cryptography.hazmat.primitives.asymmetric import ec as cec   # noqa: E402
from cryptography.hazmat.primitives.asymmetric.utils import (     # noqa: E402
    decode_dss_signature, encode_dss_signature)

P256_N = 0xFFFFFFFF00000000FFFFFFFFFFFFFFFFBCE6FAADA7179E84F3B9CAC2FC632551


def now():
    """The validity windows of generated certificates are laid around the REAL current time, so
    that the code under test may read the clock any way it likes (datetime.now(UTC), time.time(),
    the X.509 library's own verifier, ...). Nothing but the certificates' dates depends on it:
    cases name their windows symbolically, and every window boundary is at least 30 minutes
    away from the instant of validation."""
    return _dt.datetime.now(_dt.timezone.utc).replace(microsecond=0)


class host_timezone:
    """Runs a block with the PROCESS time zone set to `offset` seconds east of UTC (POSIX TZ +
    tzset), as on a host whose local time is not UTC: naive datetime.now() is then really local
    time and aware conversions stay correct."""

    def __init__(self, offset):
        self.offset = int(offset or 0)

    def __enter__(self):
        import os
        import time
        self.saved = os.environ.get("TZ")
        o = self.offset
        sign = "-" if o >= 0 else "+"        # POSIX: the sign is that of UTC minus local
        a = abs(o)
        os.environ["TZ"] = "VRF%s%02d:%02d" % (sign, a // 3600, (a % 3600) // 60)
        time.tzset()
        if time.localtime().tm_gmtoff != o:
            raise RuntimeError("could not set the host time zone to %d" % o)
        return self

    def __exit__(self, *a):
        import os
        import time
        if self.saved is None:
            os.environ.pop("TZ", None)
        else:
            os.environ["TZ"] = self.saved
        time.tzset()
        return False


def p256_key(k, curve=None, role=None):
    """EC private key from an integer; `role` separates keys drawn for different purposes so
    that equal integers (as the shrinker likes to produce) never give equal keys."""
    curve = curve or cec.SECP256R1()
    if role is not None:
        k = int.from_bytes(hashlib.sha256(("%s:%d" % (role, int(k))).encode()).digest(), "big")
    order = {"secp256r1": P256_N}.get(curve.name)
    if order is None:
        order = 2 ** (curve.key_size - 2)
    return cec.derive_private_key((int(k) % (order - 1)) + 1, curve)


def pub_raw64(priv_or_pub):
    pub = priv_or_pub.public_key() if hasattr(priv_or_pub, "public_key") else priv_or_pub
    nums = pub.public_numbers()
    return nums.x.to_bytes(32, "big") + nums.y.to_bytes(32, "big")


WINDOWS = {
    "valid": (-86400, 86400), "expired": (-172800, -3600 * 8), "not-yet": (3600 * 8, 172800),
    "long": (-10 ** 8, 10 ** 8),
    "expired-1h": (-86400, -3600), "not-yet-1h": (3600, 86400),
    "expired-30m": (-86400, -1800), "not-yet-30m": (1800, 86400),
    "ends-in-1h": (-86400, 3600), "started-1h-ago": (-3600, 86400),
    "ends-in-30m": (-86400, 1800), "started-30m-ago": (-1800, 86400),
}
BROKEN_WINDOWS = ("expired", "not-yet", "expired-1h", "not-yet-1h", "expired-30m", "not-yet-30m")


def make_cert(subject_cn, subject_pub, issuer_cn, issuer_priv, window="valid", serial=1):
    if isinstance(window, (list, tuple)) and window[0] == "abs":
        # absolute bounds (seconds since the epoch)
        t0 = _dt.datetime.fromtimestamp(int(window[1]), _dt.timezone.utc)
        t1 = _dt.datetime.fromtimestamp(int(window[2]), _dt.timezone.utc)
        b = (x509.CertificateBuilder()
             .subject_name(x509.Name([x509.NameAttribute(NameOID.COMMON_NAME, subject_cn)]))
             .issuer_name(x509.Name([x509.NameAttribute(NameOID.COMMON_NAME, issuer_cn)]))
             .public_key(subject_pub).serial_number(serial)
             .not_valid_before(t0).not_valid_after(t1))
        return b.sign(issuer_priv, hashes.SHA256())
    if window == "no-expiry":
        # RFC 5280 4.1.2.5: 'no well-defined expiration date'
        window = ["abs", int(now().timestamp()) - 86400, 253402300799]
        return make_cert(subject_cn, subject_pub, issuer_cn, issuer_priv, window, serial)
    nb, na = WINDOWS[window]
    b = (x509.CertificateBuilder()
         .subject_name(x509.Name([x509.NameAttribute(NameOID.COMMON_NAME, subject_cn)]))
         .issuer_name(x509.Name([x509.NameAttribute(NameOID.COMMON_NAME, issuer_cn)]))
         .public_key(subject_pub)
         .serial_number(serial)
         .not_valid_before(now() + _dt.timedelta(seconds=nb))
         .not_valid_after(now() + _dt.timedelta(seconds=na)))
    return b.sign(issuer_priv, hashes.SHA256())


def cert_der(cert):
    return cert.public_bytes(serialization.Encoding.DER)


def cert_pem(cert):
    return cert.public_bytes(serialization.Encoding.PEM)


def der_to_b64(der):
    return base64.b64encode(der).decode("ascii")


def sign_p256(priv, message):
    return priv.sign(message, cec.ECDSA(hashes.SHA256()))


def der_sig_to_raw64(der):
    r, s = decode_dss_signature(der)
    return r.to_bytes(32, "big") + s.to_bytes(32, "big")


def raw64_to_der(raw):
    return encode_dss_signature(int.from_bytes(raw[:32], "big"), int.from_bytes(raw[32:], "big"))


def report_body(fields):
    """sgx_report_body_t (384 bytes) from a dict of byte strings / ints."""
    f = fields
    return (f["cpusvn"] + struct.pack("<I", f["miscselect"]) + bytes(12) + f["isvextprodid"] +
            struct.pack("<QQ", f["flags"], f["xfrm"]) + f["mrenclave"] + bytes(32) +
            f["mrsigner"] + bytes(32) + f["configid"] +
            struct.pack("<HHH", f["isvprodid"], f["isvsvn"], f["configsvn"]) + bytes(42) +
            f["isvfamilyid"] + f["report_data"])


def quote_header(h):
    return (struct.pack("<HHIHH", h["version"], h["sign_type"], h["tee_type"], h["qe_svn"],
                        h["pce_svn"]) + h["uuid"] + h["user_data"])


def verify_p256_independent(pub_raw, message, sig_der):
    try:
        nums = cec.EllipticCurvePublicNumbers(int.from_bytes(pub_raw[:32], "big"),
                                              int.from_bytes(pub_raw[32:], "big"),
                                              cec.SECP256R1())
        nums.public_key().verify(sig_der, message, cec.ECDSA(hashes.SHA256()))
        return True
    except Exception:
        return False


def verify_issuer_independent(subject_der, issuer_der):
    """X.509 issuer signature with the `ecdsa` package (the code under test uses cryptography)."""
    try:
        sub = x509.load_der_x509_certificate(subject_der)
        iss = x509.load_der_x509_certificate(issuer_der)
        spki = iss.public_key().public_bytes(serialization.Encoding.DER,
                                             serialization.PublicFormat.SubjectPublicKeyInfo)
        vk = ecdsa.VerifyingKey.from_der(spki)
        return bool(vk.verify(sub.signature, sub.tbs_certificate_bytes, hashfunc=hashlib.sha256,
                              sigdecode=sigdecode_der))
    except Exception:
        return False


def in_window(cert_der_bytes):
    try:
        c = x509.load_der_x509_certificate(cert_der_bytes)
        return c.not_valid_before_utc <= now() <= c.not_valid_after_utc
    except Exception:
        return False


# ---------------------------------------------------------------------- whole v2 certificates

X509_NAMES = ["quoting_enclave", "platform_ca", "ca2"]     # leaf first


def _shifted(report_data, shift):
    """The 64 bytes of report data with the digest moved away from the front: shift = [n, fill]
    puts n bytes (zeros, or 0x5a) before it; nothing is moved for None. The field keeps its
    size; the digest is still in it, only not where the binding says."""
    if not shift:
        return report_data
    n, fill = shift
    pad = bytes(n) if fill == "zero" else b"\x5a" * n
    return (pad + report_data)[:64]


def _grind(data, shape, prefix):
    """data followed by a two-byte counter chosen so that SHA-256(prefix + data) has the given
    shape ('ends-00', 'starts-00', 'ends-0000'); data itself when no shape is asked for."""
    if not shape:
        return data
    for k in range(2 ** 24):
        cand = data + k.to_bytes(3, "big")
        d = hashlib.sha256(prefix + cand).digest()
        if (shape == "ends-00" and d[-1] == 0) or (shape == "starts-00" and d[0] == 0) or \
                (shape == "ends-0000" and d[-2:] == b"\0\0"):
            return cand
    raise AssertionError("no digest of shape %s" % shape)


def default_rb(seed_bytes, report_data):
    h = hashlib.sha512(seed_bytes).digest() * 4
    return {"cpusvn": h[:16], "miscselect": int.from_bytes(h[16:20], "big"),
            "isvextprodid": h[20:36], "flags": int.from_bytes(h[36:44], "big"),
            "xfrm": int.from_bytes(h[44:52], "big"), "mrenclave": h[52:84],
            "mrsigner": h[84:116], "configid": h[116:180],
            "isvprodid": int.from_bytes(h[180:182], "big"),
            "isvsvn": int.from_bytes(h[182:184], "big"),
            "configsvn": int.from_bytes(h[184:186], "big"), "isvfamilyid": h[186:202],
            "report_data": report_data}


class V2Cert:
    """A genuine SGX attestation certificate built from integers and byte strings.

    spec keys: root, inter (list of 0..2 ints), leaf, att (ints -> P-256 keys), windows (dict
    cert name -> window name), auth (bytes), custom (bytes), seed (bytes), rd_tail_q/rd_tail_a
    (32-byte tails of the two report_data fields)
    """

    def __init__(self, spec):
        s = spec
        self.spec = s
        self.keys = {"sgx_root": p256_key(s["root"], role="root"),
                     "quoting_enclave": p256_key(s["leaf"], role="leaf"),
                     "attestation": p256_key(s["att"], role="att")}
        inter = list(s.get("inter", []))
        self.chain = ["quoting_enclave"] + X509_NAMES[1:1 + len(inter)]     # leaf .. top
        for nm, k in zip(self.chain[1:], inter):
            self.keys[nm] = p256_key(k, role=nm)
        self.parent = {}
        for i, nm in enumerate(self.chain):
            self.parent[nm] = self.chain[i + 1] if i + 1 < len(self.chain) else "sgx_root"
        self.parent["attestation"] = "quoting_enclave"
        self.parent["quote"] = "attestation"
        w = s.get("windows", {})
        self.root_cert = make_cert("root", self.keys["sgx_root"].public_key(), "root",
                                   self.keys["sgx_root"], w.get("sgx_root", "long"))
        self.certs = {}
        for nm in self.chain:
            self.certs[nm] = cert_der(make_cert(nm, self.keys[nm].public_key(),
                                                self.parent[nm], self.keys[self.parent[nm]],
                                                w.get(nm, "valid"), serial=7))
        att_pub = pub_raw64(self.keys["attestation"])
        self.auth = _grind(s["auth"], s.get("grind_auth"), att_pub)
        self.custom = _grind(s["custom"], s.get("grind_custom"), b"")
        rd_a = _shifted(hashlib.sha256(att_pub + self.auth).digest() +
                        s.get("rd_tail_a", bytes(32)), s.get("rd_shift_a"))
        self.qe_rb_fields = default_rb(b"qe" + s.get("seed", b""), rd_a)
        self.qe_rb = report_body(self.qe_rb_fields)
        rd_q = _shifted(hashlib.sha256(self.custom).digest() + s.get("rd_tail_q", bytes(32)),
                        s.get("rd_shift_q"))
        self.q_rb_fields = default_rb(b"quote" + s.get("seed", b""), rd_q)
        sd = hashlib.sha256(b"hdr" + s.get("seed", b"")).digest() * 2
        self.q_hdr = {"version": 3, "sign_type": 2, "tee_type": 0,
                      "qe_svn": int.from_bytes(sd[:2], "big"),
                      "pce_svn": int.from_bytes(sd[2:4], "big"), "uuid": sd[4:20],
                      "user_data": sd[20:40]}
        self.quote = quote_header(self.q_hdr) + report_body(self.q_rb_fields)
        self.att_key = b"\x04" + att_pub
        self.sig_att = sign_p256(self.keys["quoting_enclave"], self.qe_rb)
        self.sig_quote = sign_p256(self.keys["attestation"], self.quote)

    def elements(self):
        els = [
            {"name": "quote", "type": "sgx_quote", "message": self.quote.hex(),
             "custom_data": self.custom.hex(), "signature": self.sig_quote.hex(),
             "signed_by": "attestation"},
            {"name": "attestation", "type": "sgx_attestation_key", "message": self.qe_rb.hex(),
             "key": self.att_key.hex(), "auth_data": self.auth.hex(),
             "signature": self.sig_att.hex(), "signed_by": "quoting_enclave"},
        ]
        for nm in self.chain:
            els.append({"name": nm, "type": "x509_pem", "message": der_to_b64(self.certs[nm]),
                        "signed_by": self.parent[nm]})
        return els

    def to_dict(self):
        return {"version": 2, "targets": ["quote"], "elements": self.elements()}

    def root_element_map(self):
        return {"name": "sgx_root", "message": der_to_b64(cert_der(self.root_cert)),
                "signed_by": "sgx_root"}

    def path_from_root(self):
        return list(reversed(self.chain)) + ["attestation", "quote"]

    def expected_quote_dict(self):
        rb = dict(self.q_rb_fields)
        return {"header": self.q_hdr, "report_body": rb}


def flip_in_signed_or_signature(der, pos, bit):
    """Flip one bit of an X.509 certificate inside what is signed (the TBS bytes) or inside the
    signature value. Other octets (outer headers, the outer algorithm identifier, the BIT STRING
    unused-bits octet) are encoding: some of their alterations leave the certificate's meaning
    intact, so they are not 'a byte the issuer signed or a signature byte'."""
    c = x509.load_der_x509_certificate(der)
    tbs = c.tbs_certificate_bytes
    t0 = der.index(tbs)
    sig = c.signature
    s0 = len(der) - len(sig)
    assert der[s0:] == sig
    region = list(range(t0, t0 + len(tbs))) + list(range(s0, len(der)))
    i = region[pos % len(region)]
    ba = bytearray(der)
    ba[i] ^= 1 << (bit % 8)
    return bytes(ba)
