"""Builders for attestation certificates (harness side) and independent verifiers.

Version 1 (Ledger): secp256k1 chains signed with the pure-Python `ecdsa` package (the code
under test verifies with libsecp256k1). Keys are derived from drawn integers so cases are
reproducible.
"""
import hashlib
import hmac

import ecdsa
from ecdsa.util import sigencode_der_canonize, sigdecode_der

SECP = ecdsa.SECP256k1
N = SECP.order
V1_NAMES = ["device", "attestation", "ui", "signer"]


def sk_from_int(k):
    k = (int(k) % (N - 1)) + 1
    return ecdsa.SigningKey.from_secret_exponent(k, curve=SECP, hashfunc=hashlib.sha256)


def pub_uncompressed(sk_or_vk):
    vk = sk_or_vk.get_verifying_key() if hasattr(sk_or_vk, "get_verifying_key") else sk_or_vk
    return b"\x04" + vk.to_string()


def pub_compressed(sk_or_vk):
    vk = sk_or_vk.get_verifying_key() if hasattr(sk_or_vk, "get_verifying_key") else sk_or_vk
    return vk.to_string("compressed")


def tweak_scalar(tweak_bytes, parent_pub_uncompressed):
    return int.from_bytes(hmac.new(tweak_bytes, parent_pub_uncompressed,
                                   hashlib.sha256).digest(), "big")


def tweaked_sk(parent_sk, tweak_bytes):
    t = tweak_scalar(tweak_bytes, pub_uncompressed(parent_sk))
    k = (parent_sk.privkey.secret_multiplier + t) % N
    if k == 0:
        k = 1
    return ecdsa.SigningKey.from_secret_exponent(k, curve=SECP, hashfunc=hashlib.sha256)


def sign(sk, message):
    return sk.sign_deterministic(message, hashfunc=hashlib.sha256,
                                 sigencode=sigencode_der_canonize)


def verify_independent(pub_bytes, message, sig, tweak_bytes=None):
    """Verification with the `ecdsa` package and explicit point addition for the tweak."""
    try:
        if len(pub_bytes) not in (33, 65):
            return False             # libsecp256k1 parses 33- and 65-byte encodings only
        if pub_bytes[0] in (6, 7):
            return None              # hybrid encoding: libraries differ, not asserted
        if (len(pub_bytes) == 65) != (pub_bytes[0] == 4):
            return False
        vk = ecdsa.VerifyingKey.from_string(pub_bytes, curve=SECP, hashfunc=hashlib.sha256)
        if tweak_bytes is not None:
            t = tweak_scalar(tweak_bytes, b"\x04" + vk.to_string())
            if t >= N:
                return False
            point = vk.pubkey.point + SECP.generator * t
            vk = ecdsa.VerifyingKey.from_public_point(point, curve=SECP,
                                                      hashfunc=hashlib.sha256)
        r, s = sigdecode_der(sig, N)
        if s > N // 2:
            return None          # high-S: mathematically valid, libsecp256k1 refuses; ambiguous
        return bool(vk.verify(sig, message, hashfunc=hashlib.sha256, sigdecode=sigdecode_der))
    except Exception:
        return False


def v1_extract(name, message):
    if name == "device":
        return message[-65:]
    if name == "attestation":
        return message[1:]
    return message


def v1_message_for(name, pub, filler):
    """A message whose extractor yields `pub` (65-byte uncompressed key)."""
    if name == "device":
        return filler + pub
    if name == "attestation":
        return b"\xff" + pub
    return pub


class V1Cert:
    """elements: name -> dict(signed_by, message, signature, tweak|None); targets: list"""

    def __init__(self):
        self.elements = {}
        self.order = []
        self.targets = []

    def to_dict(self):
        els = []
        for n in self.order:
            e = self.elements[n]
            d = {"name": n, "message": e["message"].hex(), "signature": e["signature"].hex(),
                 "signed_by": e["signed_by"]}
            if e.get("tweak") is not None:
                d["tweak"] = e["tweak"].hex()
            els.append(d)
        return {"version": 1, "targets": list(self.targets), "elements": els}

    def expected(self, root_pub):
        """Independent walk: target -> (True, value_hex, tweak_hex|None) | (False, name) |
        None when some link on the path is ambiguous (high-S)."""
        res = {}
        for t in self.targets:
            path = []
            cur = t
            while True:
                path.append(cur)
                p = self.elements[cur]["signed_by"]
                if p == "root":
                    break
                cur = p
            path.reverse()
            certifier_pub = root_pub
            verdict = None
            for name in path:
                e = self.elements[name]
                ok = verify_independent(certifier_pub, e["message"], e["signature"],
                                        e.get("tweak"))
                if ok is None:
                    verdict = "ambiguous"
                    break
                if not ok:
                    verdict = (False, name)
                    break
                certifier_pub = v1_extract(name, e["message"])
            if verdict is None:
                e = self.elements[t]
                verdict = (True, v1_extract(t, e["message"]).hex(),
                           e["tweak"].hex() if e.get("tweak") is not None else None)
            res[t] = verdict
        return res
