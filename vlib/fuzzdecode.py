"""Turns a libFuzzer input of a `hyp`-mode campaign back into the structured case Hypothesis
derives from it (same strategy, same decoding), so that the crash becomes a replay file."""
from hypothesis import given, settings, HealthCheck

from .core import roundtrip


def decode(strategy, data):
    got = []

    @settings(database=None, deadline=None, suppress_health_check=list(HealthCheck))
    @given(strategy)
    def capture(case):
        got.append(roundtrip(case))
    capture.hypothesis.fuzz_one_input(bytes(data))
    if not got:
        raise ValueError("input does not decode to a case")
    return got[0]
