"""Glue between the harness and the real middleware stack: builds the real protocol objects on
top of a simulated World by replacing the transport factories (the only patch points used)."""
import copy
import io
import json
import logging

from . import env
env.prepare()

import ledger.hsm2dongle as hd            # noqa: E402
import ledger.hsm2dongle_tcp as hdt       # noqa: E402
from ledger.protocol import HSM2ProtocolLedger            # noqa: E402
from ledger.protocol_v1 import HSM1ProtocolLedger         # noqa: E402
from comm.protocol import HSM2ProtocolError, HSM2ProtocolInterrupt   # noqa: E402
from comm.platform import Platform                        # noqa: E402
from comm.server import _RequestHandler, RequestHandlerError, RequestHandlerShutdown  # noqa

from .device import World, get_dongle, Policy, BOOT, SIGNER, UIHB   # noqa: E402
from .refs import path_bin, AUTH_PATHS, UNAUTH_PATHS, ALL_PATHS, rlp_list   # noqa: E402

HSM2ProtocolLedger.OPEN_APP_WAIT = 0
Platform.set(Platform.LEDGER)
_LOGGER = logging.getLogger("verif-null")


def default_world(**kw):
    w = World(**kw)
    w.auth_paths = {path_bin(p) for p in AUTH_PATHS}
    w.unauth_paths = {path_bin(p) for p in UNAUTH_PATHS}
    if not w.pubkeys:
        w.pubkeys = {path_bin(p): b"\x04" + path_bin(p)[5:9] * 16 for p in ALL_PATHS}
    return w


def install(w):
    """The simulated device takes the place of ledgerblue's transport factory, both where the
    middleware imported it to and at its source (so that the code may reach it either way)."""
    g = get_dongle(w)
    hd.getDongle = g
    hdt.getDongle = g
    import ledgerblue.comm
    import ledgerblue.commTCP
    ledgerblue.comm.getDongle = g
    ledgerblue.commTCP.getDongle = g


# which manager the stack is that of: "Ledger" (USB HID transport), "TCP" (TCPSigner), "SGX"
TRANSPORT = ["Ledger"]


def stack(w, v1=False, pin=None, init=True):
    """Real HSM2Dongle (or its TCP / SGX variant) + real protocol object over world w."""
    install(w)
    if TRANSPORT[0] == "Ledger":
        dongle = hd.HSM2Dongle(False)
    elif TRANSPORT[0] == "TCP":
        dongle = hdt.HSM2DongleTCP("h", 1, False)
    else:
        from sgx.hsm2dongle import HSM2DongleSGX
        dongle = HSM2DongleSGX("h", 1, False)
    p = (HSM1ProtocolLedger if v1 else HSM2ProtocolLedger)(pin, dongle)
    if init:
        tried = w.conn + sum(1 for e in w.log if e[0] == "connect_fail")
        try:
            p.initialize_device()
        except BaseException:
            if w.conn + sum(1 for e in w.log if e[0] == "connect_fail") == tried:
                from .core import HarnessError
                raise HarnessError("the code under test did not reach the simulated transport "
                                   "(it no longer obtains its device through getDongle?)")
            raise
    return p


def handler(p):
    return _RequestHandler(p, _LOGGER)


class stock_recursion:
    """Gives the code under test the recursion head-room it has in production: the interpreter's
    stock limit (1000) counted from a server's shallow stack, not the harness's raised limit
    counted from wherever the harness happens to call from."""
    STOCK, SERVER_DEPTH = 1000, 12

    def __enter__(self):
        import sys
        self.saved = sys.getrecursionlimit()
        depth, f = 0, sys._getframe()
        while f is not None:
            depth, f = depth + 1, f.f_back
        sys.setrecursionlimit(depth + self.STOCK - self.SERVER_DEPTH)
        return self

    def __exit__(self, *a):
        import sys
        sys.setrecursionlimit(self.saved)
        return False


def serve_line(h, line):
    """Feed one request line to the real request handler.
    Returns (raw_output_bytes, exception_or_None)."""
    wf = io.BytesIO()
    exc = None
    try:
        with stock_recursion():
            h.handle("verif", io.BytesIO(line + b"\n"), wf)
    except BaseException as e:   # noqa - includes the handler's shutdown signals
        if isinstance(e, (KeyboardInterrupt, SystemExit, MemoryError)) or \
                type(e).__name__ in ("CaseTimeout", "Timeout", "Dead"):
            raise        # the harness's own signals (watchdogs, simulated crash)
        exc = e
    return wf.getvalue(), exc


def parse_reply(out):
    """The reply contract of C03: exactly one '\\n'-terminated line holding a JSON object whose
    errorcode is an int. Returns the object or None."""
    parts = out.split(b"\n")
    if len(parts) != 2 or parts[1] != b"":
        return None
    try:
        o = json.loads(parts[0])
    except Exception:
        return None
    if not isinstance(o, dict) or type(o.get("errorcode")) is not int:
        return None
    return o


def request(p, req):
    req = copy.deepcopy(req)
    with stock_recursion():
        return p.handle_request(req)


# ------------------------------------------------------------------ nominal requests

def mkblock(i, nf=19):
    fields = [bytes([i]) * 32] + [bytes([i, j]) * 3 for j in range(nf - 4)] + \
        [b"\x01" * 80, b"\x02" * 64, bytes(8) + b"\x03" * 32 + b"RSKBLOCK:" + b"\x04" * 40]
    return rlp_list(fields).hex()


K_AUTH = "m/44'/0'/0'/0/0"
K_UNAUTH = "m/44'/137'/0'/0/0"
NOMINAL_TX = ("0100000001" + "11" * 32 + "00000000" + "03" + "00" + "0151" + "ffffffff" + "01" +
              "0010000000000000" + "00" + "00000000")


def nominal_requests():
    return {
        "version": {"command": "version"},
        "getPubKey": {"command": "getPubKey", "version": 5, "keyId": K_AUTH},
        "sign_unauth": {"command": "sign", "version": 5, "keyId": K_UNAUTH,
                        "message": {"hash": "aa" * 32}},
        "sign_auth": {"command": "sign", "version": 5, "keyId": K_AUTH,
                      "message": {"tx": NOMINAL_TX, "input": 0,
                                  "sighashComputationMode": "legacy"},
                      "auth": {"receipt": "c3010203", "receipt_merkle_proof": ["aabb", "cc"]}},
        "sign_segwit": {"command": "sign", "version": 5, "keyId": K_AUTH,
                        "message": {"tx": NOMINAL_TX, "input": 0,
                                    "sighashComputationMode": "segwit",
                                    "witnessScript": "5152", "outpointValue": 1234},
                        "auth": {"receipt": "c3010203", "receipt_merkle_proof": ["aabb", "cc"]}},
        "advance": {"command": "advanceBlockchain", "version": 5,
                    "blocks": [mkblock(1), mkblock(2)], "brothers": [[mkblock(7)], []]},
        "reset": {"command": "resetAdvanceBlockchain", "version": 5},
        "state": {"command": "blockchainState", "version": 5},
        "ancestor": {"command": "updateAncestorBlock", "version": 5,
                     "blocks": [mkblock(1), mkblock(2)]},
        "params": {"command": "blockchainParameters", "version": 5},
        "signerHb": {"command": "signerHeartbeat", "version": 5, "udValue": "11" * 16},
        "uiHb": {"command": "uiHeartbeat", "version": 5, "udValue": "22" * 32},
    }


def nominal_requests_v1():
    return {
        "version": {"command": "version"},
        "getPubKey": {"command": "getPubKey", "version": 1, "keyId": K_AUTH},
        "sign": {"command": "sign", "version": 1, "keyId": K_UNAUTH, "message": "aa" * 32},
    }


# ------------------------------------------------------------------ other commands in between

T5, T1 = nominal_requests(), nominal_requests_v1()
INTERLUDES = ["sign_unauth", "sign_auth", "sign_segwit", "advance", "advance-refused", "reset",
              "ancestor", "state", "params", "signerHb", "getPubKey", "getPubKey-all",
              "unknown-command", "refused-key", "link-failure", "link-failure"]


def interlude(p, w, kinds, v1):
    """Nominal requests of other kinds on the same manager (their replies are the business of
    other checks: here they only have to be answered)."""
    done = []
    for k in kinds:
        saved_plan = w.adv_plan
        if k == "link-failure":
            # the link fails during a public-key query (the next request repairs it)
            w.faults[w.nex] = "read"
            reqs = [T1["getPubKey"] if v1 else T5["getPubKey"]]
        elif v1:
            reqs = [dict(T1["sign"])] if k.startswith("sign") else \
                [dict(T1["getPubKey"], keyId=kp) for kp in (
                    ALL_PATHS if k == "getPubKey-all" else ALL_PATHS[:1])] \
                if k.startswith("getPubKey") else [{"command": "version"}]
        elif k == "getPubKey-all":
            reqs = [dict(T5["getPubKey"], keyId=kp) for kp in ALL_PATHS]
        elif k == "advance-refused":
            w.adv_plan = {"max_brothers": 0}       # the device refuses the first block's brother
            reqs = [T5["advance"]]
        elif k == "unknown-command":
            reqs = [{"command": "nothing-like-it", "version": 5}]
        elif k == "refused-key":
            reqs = [dict(T5["getPubKey"], keyId="m/44'/1'/1'/1/1")]
        else:
            if k in ("advance", "ancestor"):
                w.adv_plan = {"final": "total"}
            reqs = [T5[k]]
        for r in reqs:
            try:
                rep = request(p, r)
            except HSM2ProtocolInterrupt:
                # the manager stops (a repair that finds the device in no state to serve from):
                # the history is over
                w.adv_plan = saved_plan
                return done + ["manager-stopped"]
            check_sim(w)
            if not isinstance(rep, dict) or type(rep.get("errorcode")) is not int:
                from .core import Violation
                raise Violation("reply-shape", "%r -> %r" % (r.get("command"), rep))
        w.adv_plan = saved_plan
        done.append("interlude:" + ("v1" if v1 and k != "link-failure" else k))
        if v1 and k == "link-failure":
            done.append("interlude:v1-link-failure")
    return done


def check_sim(w):
    """A bug inside the simulated device must never be mistaken for behaviour of the code under
    test: it is a harness error."""
    from .core import HarnessError
    if w is not None and w.sim_errors:
        raise HarnessError("simulated device raised: %s" % w.sim_errors[0])
    import bitcoin.core
    if getattr(bitcoin.core, "SHIM_MISSING", None):
        raise HarnessError("the python-bitcoinlib stand-in lacks %s" % bitcoin.core.SHIM_MISSING[0])
