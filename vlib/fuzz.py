"""Coverage-guided tier (atheris / libFuzzer) for the byte-level properties C03 and C16.

Runs as a subprocess:  python -m vlib.fuzz <C03|C16> <raw|hyp> <statsfile> [libFuzzer args...]
The semantic oracle of the check lives INSIDE the target; a violation is raised as an exception,
which libFuzzer turns into a saved crashing input (the reproducible unit).
"""
import hashlib
import json
import os
import sys
import time


def main():
    prop, mode, statsfile = sys.argv[1], sys.argv[2], sys.argv[3]
    argv = [sys.argv[0]] + sys.argv[4:]
    sys.path.insert(0, os.path.join(os.path.dirname(os.path.dirname(os.path.abspath(__file__))),
                                    ".deps"))
    import atheris
    from vlib import env
    env.prepare()
    import logging
    logging.disable(logging.CRITICAL)
    sys.setrecursionlimit(10000)
    with atheris.instrument_imports(include=["comm", "ledger", "admin", "sgx"]):
        if prop == "C03":
            from checks import c03 as chk
        else:
            from checks import c16 as chk
    from vlib.core import Violation, roundtrip
    stats = {"execs": 0, "nontrivial": 0, "t0": time.time()}
    seen = set()

    def note(nontrivial, key):
        stats["execs"] += 1
        if nontrivial:
            h = hashlib.blake2b(key, digest_size=8).digest()
            if h not in seen:
                seen.add(h)
                stats["nontrivial"] = len(seen)
        if stats["execs"] % 500 == 0:
            with open(statsfile, "w") as f:
                json.dump(stats, f)

    if prop == "C03" and mode == "raw":
        def target(data):
            line = bytes(data).replace(b"\n", b" ")
            case = {"v1": bool(len(line) % 7 == 0), "lines": [{"k": "raw", "b": line}]}
            out = chk.run_case(case)
            note(out.nontrivial, line)
    elif prop == "C16" and mode == "raw":
        root1 = chk.HSMCertificateRoot(chk.ROOT1_PUB.hex())

        def target(data):
            try:
                text = bytes(data).decode("utf-8")
            except UnicodeDecodeError:
                stats["execs"] += 1
                return
            labels = []
            loaded = chk.judge_text(text, root1, labels)
            note(bool(loaded), text.encode())
    else:
        from hypothesis import given, settings, HealthCheck

        @settings(database=None, deadline=None, suppress_health_check=list(HealthCheck))
        @given(chk.cases("quick"))
        def hyp(case):
            case = roundtrip(case)
            out = chk.run_case(case)
            note(out.nontrivial, json.dumps(str(case)).encode())
        fuzz_one = hyp.hypothesis.fuzz_one_input

        def target(data):
            fuzz_one(bytes(data))
    atheris.Setup(argv, target)
    try:
        atheris.Fuzz()
    finally:
        with open(statsfile, "w") as f:
            json.dump(stats, f)


if __name__ == "__main__":
    main()
