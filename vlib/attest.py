"""Genuine attestation material (harness side) for C08 / C15: wallet keys, powHSM messages,
Ledger (v1) and SGX (v2) certificates around them."""
import hashlib
import struct

from . import certs
from .certs import V1Cert, sk_from_int, pub_uncompressed, pub_compressed, tweaked_sk, sign
from .refs import ALL_PATHS

UI_PATH = "m/44'/0'/0'/0/0"


def wallet(keys_spec):
    """keys_spec: list of [path, int]; returns {path: SigningKey}"""
    return {p: sk_from_int(int.from_bytes(hashlib.sha256(
        ("wallet:%s:%d" % (p, k)).encode()).digest(), "big")) for p, k in keys_spec}


_ZERO_X = {}


def zero_x_index(path, what="x"):
    """The smallest k for which wallet([[path, k]]) has a public key whose X (or Y) coordinate
    begins with a zero byte - one key in 256 does; fixed-width encoders and comparisons have to
    cope with it."""
    if (path, what) not in _ZERO_X:
        k = 0
        while True:
            pub = pub_uncompressed(wallet([[path, k]])[path])
            if (pub[1] if what == "x" else pub[33]) == 0:
                break
            k += 1
        _ZERO_X[(path, what)] = k
    return _ZERO_X[(path, what)]


def pubkeys_hash(pub_by_path):
    """SHA-256 over the uncompressed keys in (lexicographic) path order."""
    h = hashlib.sha256()
    for p in sorted(pub_by_path):
        h.update(pub_by_path[p])
    return h.digest()


def powhsm_message(version, platform, ud, pkhash, best_block, last_tx, timestamp):
    return (b"POWHSM:" + version.encode() + b"::" + platform + ud + pkhash + best_block +
            last_tx + struct.pack(">Q", timestamp))


def legacy_signer_message(version, pkhash):
    return b"HSM:SIGNER:" + version.encode() + pkhash


def ui_message(version, ud, btc_pub_compressed, signer_hash, iteration, tail=b""):
    return (b"HSM:UI:" + version.encode() + ud + btc_pub_compressed + signer_hash +
            struct.pack(">H", iteration) + tail)


class LedgerDevice:
    """Key hierarchy of a genuine Ledger powHSM: root -> device -> attestation -> ui/signer."""

    def __init__(self, root, device, att):
        self.root_sk = sk_from_int(int.from_bytes(hashlib.sha256(b"root:%d" % root).digest(),
                                                  "big"))
        self.device_sk = sk_from_int(int.from_bytes(hashlib.sha256(b"dev:%d" % device).digest(),
                                                    "big"))
        self.att_sk = sk_from_int(int.from_bytes(hashlib.sha256(b"att:%d" % att).digest(),
                                                 "big"))

    def certificate(self, ui_msg, ui_hash, signer_msg, signer_hash, dev_filler=b"\x02\x01"):
        c = V1Cert()
        dev_msg = dev_filler + pub_uncompressed(self.device_sk)
        c.elements["attestation"] = {
            "signed_by": "device", "tweak": None,
            "message": b"\xff" + pub_uncompressed(self.att_sk)}
        c.elements["attestation"]["signature"] = sign(self.device_sk,
                                                      c.elements["attestation"]["message"])
        c.elements["device"] = {"signed_by": "root", "tweak": None, "message": dev_msg,
                                "signature": sign(self.root_sk, dev_msg)}
        c.elements["ui"] = {"signed_by": "attestation", "tweak": ui_hash, "message": ui_msg,
                            "signature": sign(tweaked_sk(self.att_sk, ui_hash), ui_msg)}
        c.elements["signer"] = {"signed_by": "attestation", "tweak": signer_hash,
                                "message": signer_msg,
                                "signature": sign(tweaked_sk(self.att_sk, signer_hash),
                                                  signer_msg)}
        c.order = ["attestation", "device", "ui", "signer"]
        c.targets = ["ui", "signer"]
        return c

    @property
    def root_pub(self):
        return pub_uncompressed(self.root_sk)


def parse_output(text):
    """Values printed by the verify commands: {label: [values...]} plus 'keys' {path: hex}
    (the lines between '... verified with public keys:' and 'Hash:')."""
    vals, keys = {}, {}
    in_keys = False
    for line in text.splitlines():
        if line.endswith("verified with public keys:"):
            in_keys = True
            continue
        if in_keys and line.startswith("Hash: "):
            in_keys = False
        if ": " in line:
            k, v = line.split(": ", 1)
            if in_keys:
                keys[k.strip()] = v.strip()
            else:
                vals.setdefault(k.strip(), []).append(v.strip())
    return vals, keys
