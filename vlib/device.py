"""Simulated powHSM device (DESIGN.md section 3).

`World` is what survives reconnections (device state, the transport log, the reassembly
buffers); `Dongle` is one connection and stands where ledgerblue's getDongle() result stands.
Command handlers follow firmware/src (framing only; content decisions come from the case's
device plan). The device learns where a part ends FROM THE WIRE ONLY.
"""
import struct

from ledgerblue.commException import CommException

BOOT, SIGNER, UIHB = 2, 3, 4


class SW(Exception):
    def __init__(self, sw):
        self.sw = sw


def rlp_total_len(buf):
    """Total length of the RLP item starting at buf[0]; None while the header is incomplete."""
    if len(buf) == 0:
        return None
    b = buf[0]
    if b < 0x80:
        return 1
    if b <= 0xb7:
        return 1 + (b - 0x80)
    if b <= 0xbf:
        n = b - 0xb7
        if len(buf) < 1 + n:
            return None
        return 1 + n + int.from_bytes(buf[1:1 + n], "big")
    if b <= 0xf7:
        return 1 + (b - 0xc0)
    n = b - 0xf7
    if len(buf) < 1 + n:
        return None
    return 1 + n + int.from_bytes(buf[1:1 + n], "big")


class Policy:
    """Chunk-request policy: a finite list of sizes 1..255, cycled."""

    def __init__(self, sizes):
        self.sizes = [max(1, min(255, int(s))) for s in sizes] or [255]
        self.i = 0

    def next(self):
        s = self.sizes[self.i % len(self.sizes)]
        self.i += 1
        return s


def link_fault(kind):
    """The exception shapes the real HID/TCP transports raise (hsm2dongle.py classifies these)."""
    if kind == "write":
        return BaseException("Error while writing")
    if kind == "read":
        return OSError("read error")
    if kind == "timeout":
        return CommException("Timeout", 0x6F00)
    raise ValueError(kind)


class World:
    def __init__(self, **kw):
        self.mode = SIGNER
        self.onboarded = True           # True / False / "error"
        self.ui_version = (5, 4, 1)
        self.signer_version = (5, 4, 1)
        self.retries = 3
        self.pin = b"abcd1234"
        self.unlocked = False
        self.echo_ok = True
        self.unlock_ok = True           # device-side veto of an otherwise correct PIN
        self.post_mode = SIGNER         # mode entered when the bootloader is left after unlock
        self.mode_error = False         # GET_MODE answers with a foreign status word
        self.exit_raises = True         # leaving an app drops the link (as USB does)
        self.exit_drop = "read"         # ... which the host notices as a failed read, a failed
        #                                 write (the device is gone already) or a time-out
        self.hashes = {k: bytes([k & 0x7f]) * 32 for k in (1, 2, 3, 5, 0x81, 0x82, 0x84)}
        self.difficulty = 12345
        self.flags = (0, 1, 0)
        self.params = bytes(32) + (7).to_bytes(36, "big") + b"\x01"
        self.pubkeys = {}               # binary path -> raw answer bytes (65-byte key)
        self.policy = Policy([80])
        self.sig_der = bytes.fromhex("3006020101020102")
        self.auth_paths = set()
        self.unauth_paths = set()
        self.sign_dev = {}              # deviations: ('early', part) -> n ; ('late', part) -> k
        self.sign_answer_op = None      # override of the final opcode of a sign session
        self.adv_plan = {}              # 'brothers': {i: bool}, 'success_after': k, 'final'
        self.hb = {"sig": bytes.fromhex("3006020103020104"), "msg_prefix": b"HSM:SIGNER:HB:5.4:",
                   "ui_msg_prefix": b"HSM:UI:HB:5.4:", "hash": b"\x77" * 32,
                   "pubkey": b"\x04" + b"\x55" * 64, "ui_sig": None, "ui_hash": None,
                   "ui_pubkey": None}
        self.uihb_exit_modes = None     # list of modes entered by successive exit_app calls
        self.log = []                   # transport events
        self.faults = {}                # exchange ordinal -> kind | int status word | ('op', n)
        self.connect_failures = 0
        self.delay = None               # callable invoked inside every exchange (C12)
        self.nex = 0
        self.conn = 0
        self.pinbuf = {}
        self.seedbuf = {}
        self.sign_st = None
        self.blk = None
        self.adv_rx = []
        self.completed = []             # finished signing sessions: what the device held
        self.sent_chunks = []           # (part, requested, data) for the chunk-discipline oracle
        self.tag = None                 # request tag (C12)
        self.hb_ud = None
        self.hb_fault = None            # (ui?, op, status word): one-shot heartbeat failure
        self.sim_errors = []
        self.dead = False               # the manager process has crashed: nothing has effect
        self.hook = None                # callable(event name) at durable-state step boundaries
        self.newpin_behaviour = "accept"   # accept|refuse|swerr|comm|timeout|ack-lost
        self.last_answer = None         # bytes of the last normal answer, None after a fault
        self.answers = []               # (exchange ordinal, answer bytes | None after a fault)
        self.extra_handlers = {}
        self.admin_handler = None       # fn(world, apdu) for CLA 0xE0 (endorsement set-up)        # cmd -> fn(world, data, apdu) for admin-only commands
        self.__dict__.update(kw)

    def apdus(self, since=0):
        return [e[2] for e in self.log[since:] if e[0] == "apdu"]


class Dongle:
    def __init__(self, w):
        self.w = w
        self.opened = True
        w.conn += 1
        self.id = w.conn
        w.log.append(("connect", self.id))

    def close(self):
        self.opened = False
        self.w.log.append(("close", self.id))

    def exchange(self, apdu, timeout=None):
        w = self.w
        if w.dead:
            raise Dead()
        if self.id in getattr(w, "dead_conns", ()):
            # the device this handle was opened to is gone (unplugged, swapped)
            w.log.append(("stale_handle", self.id))
            raise OSError("read error")
        apdu = bytes(apdu)
        k = w.nex
        w.nex += 1
        f = w.faults.get(k)
        if f is None:
            f = w.faults.get(str(k))
        w.last_answer = None
        w.answers.append([k, None])
        if f == "write":
            w.log.append(("fault", f, apdu))
            raise link_fault(f)
        tag = w.tag() if callable(w.tag) else w.tag
        w.log.append(("apdu", self.id, apdu, tag, (w.mode, w.onboarded, w.unlocked)))
        if w.delay is not None:
            w.delay(self, apdu)
        if isinstance(f, int):
            w.log.append(("fault", f, apdu))
            reset_sessions(w)
            raise CommException("Invalid status %04x" % f, f)
        try:
            r = handle(w, apdu)
        except (IndexError, KeyError, TypeError, ValueError, AttributeError, struct.error,
                AssertionError) as e:
            # a bug of the simulated device, not of the code under test; hsm2dongle.py would
            # swallow it (it catches BaseException), so it is recorded for the check to see
            import traceback
            w.sim_errors.append(traceback.format_exc()[-1500:])
            raise
        except Dead:
            raise
        except SW as e:
            reset_sessions(w)
            if f in ("read", "timeout"):
                w.log.append(("fault", f, apdu))
                raise link_fault(f)
            raise CommException("Invalid status %04x" % e.sw, e.sw)
        except DeviceTimeout:
            w.log.append(("timeout", apdu))
            raise link_fault("timeout")
        except LinkDrop:
            if f in ("read", "timeout"):
                w.log.append(("fault", f, apdu))
                raise link_fault(f)
            w.log.append(("drop", apdu))
            raise link_fault(getattr(w, "exit_drop", "read"))
        if f in ("read", "timeout"):
            w.log.append(("fault", f, apdu))
            raise link_fault(f)
        w.last_answer = bytes(r)
        w.answers[-1][1] = bytes(r)
        if isinstance(f, (tuple, list)) and f[0] == "op":
            w.log.append(("fault", "op", apdu, bytes(r)))
            r = bytes(r[:2]) + bytes([f[1]]) + bytes(f[2] if len(f) > 2 and f[2] is not None
                                                     else r[3:])
            w.last_answer = r
            w.answers[-1][1] = bytes(r)
            return bytearray(r)
        if isinstance(f, (tuple, list)) and f[0] == "short":
            w.log.append(("fault", "short", apdu))
            return bytearray(r[:3])
        return bytearray(r)


class Dead(BaseException):
    """Raised for every device operation of a manager process that has crashed."""


def _hook(w, name):
    if w.hook is not None:
        w.hook(name)


class LinkDrop(Exception):
    """The device carried the command out and the link went away (USB re-enumeration)."""


class DeviceTimeout(Exception):
    """The device does not answer in time."""


def reset_sessions(w):
    w.sign_st = None
    w.blk = None


def get_dongle(w):
    def g(*a, **k):
        if w.connect_failures > 0:
            w.connect_failures -= 1
            w.log.append(("connect_fail",))
            raise CommException("No dongle found")
        return Dongle(w)
    return g


def handle(w, a):
    if len(a) >= 2 and a[0] == 0xE0 and w.admin_handler is not None:
        return w.admin_handler(w, a)
    if len(a) < 2 or a[0] != 0x80:
        raise SW(0x6E11)
    cmd = a[1]
    d = a[2:]
    if cmd == 0x06:
        if w.onboarded == "error":
            raise SW(0x6E00)
        v = w.ui_version if w.mode in (BOOT, UIHB) else w.signer_version
        return bytes([0x80, 1 if w.onboarded else 0, *v])
    if cmd == 0x43:
        if w.mode_error:
            raise SW(0x6E00)
        return bytes([0x80, w.mode])
    if cmd in w.extra_handlers:
        return w.extra_handlers[cmd](w, d, a)
    if cmd == 0xFF and w.mode in (SIGNER, UIHB) and len(d) == 0:
        if w.uihb_exit_modes:
            w.mode = w.uihb_exit_modes.pop(0)
        else:
            w.mode = UIHB if w.mode == SIGNER else SIGNER
        reset_sessions(w)
        if w.exit_raises:
            raise LinkDrop()
        return bytes([0x80, 0xFF])
    if w.mode == BOOT:
        return boot(w, cmd, d, a)
    if w.mode == UIHB:
        if cmd == 0x60:
            return heartbeat(w, d, ui=True)
        raise SW(0x6D00)
    if w.mode != SIGNER:
        raise SW(0x6D00)
    if cmd == 0x11:
        return bytes([0x80, 0x11, 0]) + w.params
    if cmd == 0x04:
        if len(d) != 21:
            raise SW(0x6A87)
        if d not in w.pubkeys:
            raise SW(0x6A8F)
        return w.pubkeys[d]
    if cmd == 0x20:
        return getstate(w, d)
    if cmd == 0x21:
        if d != b"\x01":
            raise SW(0x6B87)
        w.blk = None
        return bytes([0x80, 0x21, 0x02])
    if cmd == 0x60:
        return heartbeat(w, d, ui=False)
    if cmd in (0x10, 0x30):
        return blocks(w, cmd, d)
    if cmd == 0x02:
        return sign(w, d)
    raise SW(0x6D00)


def boot(w, cmd, d, a):
    if cmd in (0x02, 0xA4):
        # echo_ok: True, or how the echo is wrong: False (payload damaged), "hdr-cmd" / "hdr-cla"
        # (payload intact under another command / class byte), "short" (cut), "long" (bytes added)
        if w.echo_ok is True:
            return a
        if w.echo_ok == "hdr-cmd":
            return bytes([a[0], 0x06]) + a[2:]
        if w.echo_ok == "hdr-cla":
            return bytes([0xE0]) + a[1:]
        if w.echo_ok == "short":
            return a[:-1]
        if w.echo_ok == "long":
            return a + b"\x44"        # the whole message, and more
        return a[:-1] + b"X"
    if cmd in (0x45, 0xA2):
        return bytes([0x80, cmd, w.retries])
    if cmd == 0x41:
        if len(d) != 2:
            raise SW(0x6A01)
        w.pinbuf[d[0]] = d[1]
        return bytes([0x80, 0x41])
    if cmd in (0xFE, 0xA3):
        if cmd == 0xA3:
            pin = d[1:]
        else:
            pin = bytes(w.pinbuf.get(i, 0) for i in range(len(w.pinbuf)))
        w.pinbuf = {}
        w.log.append(("unlock_attempt", pin))
        _hook(w, "unlock")
        if cmd == 0xA3 and w.unlocked:
            # the enclave answers "unlocked" to anyone once it is (do_unlock in
            # firmware/src/sgx/src/trusted/system.c): the password is not looked at
            return bytes([0x80, cmd, 1])
        ok = pin == w.pin and w.unlock_ok and bool(w.onboarded is True)
        if ok:
            w.unlocked = True
            w.retries = 3
        else:
            w.retries = max(0, w.retries - 1)
        return bytes([0x80, cmd, 1 if ok else 0])
    if cmd in (0x08, 0xA5):
        # CHANGE_PIN (Ledger: the new PIN was sent with SEND_PIN, length-prefixed) /
        # SGX_CHANGE_PASSWORD (PIN in the APDU)
        if cmd == 0x08:
            n = w.pinbuf.get(0, 0)
            new = bytes(w.pinbuf.get(i, 0) for i in range(1, n + 1))
            w.pinbuf = {}
        else:
            new = d[1:]
        w.log.append(("newpin_rx", new))
        _hook(w, "newpin_rx")
        beh = w.newpin_behaviour
        if not w.unlocked:
            raise SW(0x6BF1)
        if beh in ("refuse", "refuse-odd"):
            if cmd == 0x08:
                raise SW(0x69A0 if beh == "refuse" else 0x6BF2)
            # SGX answers in band: 1 = changed; anything else = not changed
            return bytes([0x80, cmd, 0 if beh == "refuse" else 0x55])
        if beh == "swerr":
            raise SW(0x6A99)
        if beh == "comm":
            raise LinkDrop()            # link dies before the device applies the change
        if beh == "timeout":
            raise DeviceTimeout()
        w.pin = new
        w.log.append(("newpin_applied", new))
        _hook(w, "newpin_applied")
        if beh == "ack-lost":
            raise LinkDrop()            # device adopted the PIN, acknowledgement never arrives
        return bytes([0x80, cmd, 1]) if cmd == 0xA5 else bytes([0x80, cmd])
    if cmd == 0xFF or cmd == 0xFA:
        # 0xFF: leave the UI and (if unlocked) run the signer; 0xFA: leave the menu without
        # executing the signer (the device stays in the unlocked UI)
        if w.unlocked and cmd == 0xFF:
            w.mode = w.post_mode
        if cmd == 0xFF and w.exit_raises:
            raise LinkDrop()
        return bytes([0x80, cmd])
    raise SW(0x6D00)


def getstate(w, d):
    if d[:1] == b"\x01":
        if len(d) != 2 or d[1] not in w.hashes:
            raise SW(0x6B87)
        swap = getattr(w, "state_swap", None)
        if swap and swap[0] == d[1] and swap[1] in w.hashes:
            # one-shot: a stale / misrouted frame - the answer to ANOTHER hash query
            w.state_swap = None
            return bytes([0x80, 0x20, 0x01, swap[1]]) + w.hashes[swap[1]]
        return bytes([0x80, 0x20, 0x01, d[1]]) + w.hashes[d[1]]
    if d == b"\x02":
        n = w.difficulty
        return bytes([0x80, 0x20, 0x02]) + n.to_bytes((n.bit_length() + 7) // 8, "big")
    if d == b"\x03":
        return bytes([0x80, 0x20, 0x03, *w.flags])
    raise SW(0x6B87)


def heartbeat(w, d, ui):
    if len(d) < 1:
        raise SW(0x6B10 if not ui else 0x6A01)
    op = d[0]
    size = 32 if ui else 16
    hb = w.hb
    if w.hb_fault and w.hb_fault[0] == ui and w.hb_fault[1] == op:
        sw = w.hb_fault[2]
        w.hb_fault = None          # one-shot: an internal error of the heartbeat generation
        raise SW(sw)
    if op == 1:
        if len(d) - 1 != size:
            raise SW(0x6B10 if not ui else 0x6A01)
        w.hb_ud = d[1:]
        return bytes([0x80, 0x60, 1])
    if op == 2:
        return bytes([0x80, 0x60, 2]) + ((hb.get("ui_sig") or hb["sig"]) if ui else hb["sig"])
    if op == 3:
        pre = hb["ui_msg_prefix"] if ui else hb["msg_prefix"]
        return bytes([0x80, 0x60, 3]) + pre + (w.hb_ud or b"")
    if op == 4:
        return bytes([0x80, 0x60, 4]) + ((hb.get("ui_hash") or hb["hash"]) if ui else hb["hash"])
    if op == 5:
        return bytes([0x80, 0x60, 5]) + ((hb.get("ui_pubkey") or hb["pubkey"]) if ui
                                         else hb["pubkey"])
    raise SW(0x6B10 if not ui else 0x6A01)


def want(w, remaining):
    return max(1, min(255, remaining, w.policy.next()))


# ----------------------------------------------------------------- advance / ancestor

def blocks(w, cmd, d):
    if len(d) < 1:
        raise SW(0x6B87)
    op = d[0]
    data = d[1:]
    adv = cmd == 0x10
    if op == 0x02:
        if len(data) != 4:
            raise SW(0x6B87)
        n = int.from_bytes(data, "big")
        if n == 0:
            raise SW(0x6B87)
        w.blk = {"cmd": cmd, "n": n, "cur": 0, "blocks": [], "expect": 0x03}
        return bytes([0x80, cmd, 0x03])
    b = w.blk
    if b is None or b["cmd"] != cmd or op != b["expect"]:
        raise SW(0x6B87)
    if op in (0x03, 0x08):
        if len(data) != (34 if adv else 2):
            raise SW(0x6B87)
        item = {"meta": data, "buf": bytearray(), "brothers": None, "nbro": None,
                "chunks": []}
        if op == 0x03:
            b["blocks"].append(item)
        else:
            b["blocks"][-1]["brothers"].append(item)
        b["item"] = item
        b["expect"] = 0x04 if op == 0x03 else 0x09
        b["req"] = want(w, 255)
        return bytes([0x80, cmd, b["expect"], b["req"]])
    if op in (0x04, 0x09):
        if len(data) > b["req"] or len(data) == 0:
            raise SW(0x6B87)
        it = b["item"]
        it["buf"] += data
        it["chunks"].append((b["req"], len(data)))
        total = rlp_total_len(bytes(it["buf"]))
        if total is not None and bytes(it["buf"])[0] < 0xc0:
            raise SW(0x6B88)
        if total is None or len(it["buf"]) < total:
            b["req"] = want(w, 255 if total is None else total - len(it["buf"]))
            return bytes([0x80, cmd, op, b["req"]])
        if len(it["buf"]) > total:
            raise SW(0x6B88)
        if op == 0x04:
            plan = w.adv_plan
            if adv and plan.get("brothers", {}).get(str(len(b["blocks"]) - 1), True):
                b["expect"] = 0x07
                it["brothers"] = []
                return bytes([0x80, cmd, 0x07])
            return end_of_block(w, b, cmd)
        blk = b["blocks"][-1]
        if len(blk["brothers"]) < blk["nbro"]:
            b["expect"] = 0x08
            return bytes([0x80, cmd, 0x08])
        return end_of_block(w, b, cmd)
    if op == 0x07:
        if len(data) != 1:
            raise SW(0x6B87)
        blk = b["blocks"][-1]
        blk["nbro"] = data[0]
        if data[0] > w.adv_plan.get("max_brothers", 10):
            raise SW(0x6B9E)    # BROTHERS_TOO_MANY
        if data[0] == 0:
            return end_of_block(w, b, cmd)
        b["expect"] = 0x08
        return bytes([0x80, cmd, 0x08])
    raise SW(0x6B87)


def end_of_block(w, b, cmd):
    adv = cmd == 0x10
    b["cur"] += 1
    plan = w.adv_plan
    stop = plan.get("success_after")
    if stop is not None and b["cur"] == stop:
        w.adv_rx.append(b)
        w.blk = None
        early_total = plan.get("stop_final", "total") == "total"
        return bytes([0x80, cmd, (0x06 if early_total else 0x05) if adv else 0x05])
    if b["cur"] == b["n"]:
        w.adv_rx.append(b)
        w.blk = None
        if adv:
            return bytes([0x80, cmd, 0x06 if plan.get("final", "partial") == "total" else 0x05])
        return bytes([0x80, cmd, 0x05])
    b["expect"] = 0x03
    return bytes([0x80, cmd, 0x03])


# ----------------------------------------------------------------- sign

class SignSession:
    def __init__(self, w):
        self.w = w
        self.st = "path"
        self.held = {}
        self.buf = bytearray()
        self.expected = 0
        self.consumed_all = True

    def ask(self, op, n):
        self.expected = n
        return bytes([0x80, 0x02, op, n])

    def btc_total(self, b):
        if len(b) < 7:
            return None
        plen = struct.unpack("<I", b[:4])[0]
        edl = struct.unpack("<H", b[5:7])[0]
        if plen < 7:
            raise SW(0x6A8D)
        return plen + edl

    def mp_total(self, b):
        if len(b) < 1:
            return None
        n = b[0]
        off = 1
        for _ in range(n):
            if len(b) <= off:
                return None
            off += 1 + b[off]
        return off


def sign(w, d):
    if len(d) < 1:
        raise SW(0x6A87)
    op = d[0] & 0xF
    data = d[1:]
    if op == 0x01:
        s = w.sign_st = SignSession(w)
        s.tag = w.tag() if callable(w.tag) else w.tag
        if len(data) not in (25, 53):
            raise SW(0x6A87)
        path = data[:21]
        if path in w.auth_paths:
            if len(data) != 25:
                raise SW(0x6A90)
            s.held = {"path": path, "input_index": struct.unpack("<I", data[21:25])[0]}
            s.st = "btc"
            return s.ask(0x02, want(w, 255))
        if path in w.unauth_paths:
            if len(data) != 53:
                raise SW(0x6A91)
            s.held = {"path": path, "hash": data[21:]}
            return sign_finish(w, s)
        raise SW(0x6A8F)
    s = w.sign_st
    if s is None:
        raise SW(0x6A89)
    if op == 0x02 and s.st == "btc":
        return sign_part(w, s, data, 0x02, s.btc_total, "btc", 0x04, "receipt")
    if op == 0x04 and s.st == "receipt":
        return sign_part(w, s, data, 0x04, rlp_total_len, "receipt", 0x08, "merkle")
    if op == 0x08 and s.st == "merkle":
        return sign_part(w, s, data, 0x08, s.mp_total, "merkle", None, None)
    raise SW(0x6A89)


def sign_part(w, s, data, op, total_fn, name, next_op, next_st):
    if len(data) > s.expected:
        raise SW(0x6A87)
    w.sent_chunks.append((name, s.expected, bytes(data)))
    s.buf += data
    total = total_fn(bytes(s.buf))
    early = w.sign_dev.get("early:" + name)
    late = w.sign_dev.get("late:" + name, 0)
    if early is not None and early < 0:
        # stop when only -early bytes (or fewer) of the part are still to come
        hit = total is not None and 0 < total - len(s.buf) <= -early
    else:
        hit = early is not None and len(s.buf) >= early and \
            (total is None or len(s.buf) < total)
    if hit:
        total = len(s.buf)       # the device decides it has had enough
        s.consumed_all = False
        s.held["early:" + name] = True
    if total is None:
        if len(data) == 0:
            raise SW(0x6A87)
        return s.ask(op, want(w, 255))
    if len(s.buf) > total:
        raise SW(0x6A87)
    if len(s.buf) < total:
        if len(data) == 0:
            raise SW(0x6A87)     # host ran out of data before the wire-declared end
        return s.ask(op, want(w, total - len(s.buf)))
    if late > 0:
        # late termination: ask again although the part is complete; the host has nothing left
        w.sign_dev["late:" + name] = late - 1
        s.held["late:" + name] = s.held.get("late:" + name, 0) + 1
        s.expected = w.policy.next()
        return bytes([0x80, 0x02, op, s.expected])
    s.held[name] = bytes(s.buf)
    s.buf = bytearray()
    if next_op is None:
        return sign_finish(w, s)
    s.st = next_st
    return s.ask(next_op, want(w, 255))


def sign_finish(w, s):
    s.held["tag"] = s.tag
    w.completed.append(s.held)
    w.sign_st = None
    op = 0x81 if w.sign_answer_op is None else w.sign_answer_op
    if op in (0x02, 0x04, 0x08):
        # an answer that asks for (more) data carries the number of bytes wanted
        return bytes([0x80, 0x02, op, 0x10])
    sig = w.sig_der
    if callable(sig):
        sig = sig(s.held)
    return bytes([0x80, 0x02, op]) + sig
