"""Shared Hypothesis strategies (all randomness of the harness lives in strategies)."""
from hypothesis import strategies as st

from .refs import encodings_for, rlp_wrap_list

U32_EDGES = [0, 1, 2 ** 31 - 1, 2 ** 31, 2 ** 32 - 1]


@st.composite
def script_op(draw, maxdata=80):
    k = draw(st.integers(0, 11))
    if k <= 6:
        data = draw(st.binary(max_size=maxdata))
        enc = draw(st.sampled_from(encodings_for(len(data))))
        return ["push", data, enc]
    if k == 7:
        return ["op", 0x00]
    if k == 8:
        return ["op", draw(st.integers(0x4f, 0x60))]      # OP_1NEGATE, OP_RESERVED, OP_1..16
    if k == 9:
        n = draw(st.sampled_from([0x4c, 0x4d, 0xff, 0x100, 300, 520]))
        data = draw(st.binary(min_size=n, max_size=n))
        return ["push", data, draw(st.sampled_from(encodings_for(n)))]
    return ["op", draw(st.integers(0x61, 0xff))]


@st.composite
def redeem_push(draw, lo=80, hi=1700):
    n = draw(st.integers(lo, hi))
    data = draw(st.binary(min_size=n, max_size=n))
    return ["push", data, draw(st.sampled_from(encodings_for(n)))]


@st.composite
def txs(draw, max_in=8, max_ops=8, max_out=8, big_last=True, witness=True):
    nin = draw(st.integers(1, max_in))
    nout = draw(st.integers(0, max_out))
    ins = []
    for _ in range(nin):
        ops = draw(st.lists(script_op(), min_size=1, max_size=max_ops))
        if big_last and draw(st.integers(0, 3)) == 0:
            ops[-1] = draw(redeem_push())
        ins.append([draw(st.binary(min_size=32, max_size=32)),
                    draw(st.one_of(st.sampled_from(U32_EDGES), st.integers(0, 2 ** 32 - 1))),
                    ops,
                    draw(st.one_of(st.sampled_from(U32_EDGES), st.integers(0, 2 ** 32 - 1)))])
    outs = [[draw(st.one_of(st.sampled_from([0, 1, 21 * 10 ** 14, 2 ** 63 - 1]),
                            st.integers(0, 21 * 10 ** 14))),
             draw(st.binary(max_size=40))] for _ in range(nout)]
    tx = [draw(st.sampled_from([1, 2])), ins, outs,
          draw(st.one_of(st.sampled_from(U32_EDGES), st.integers(0, 2 ** 32 - 1)))]
    if witness and draw(st.integers(0, 3)) == 0:
        # BIP144 serialization: one witness stack per input, at least one of them not empty
        # (with every stack empty the classic serialization is the canonical one)
        stacks = [draw(st.lists(st.one_of(st.just(b""), st.binary(max_size=80)), max_size=4))
                  for _ in range(nin)]
        k = draw(st.integers(0, nin - 1))
        if not stacks[k]:
            stacks[k] = [draw(st.binary(max_size=80))]
        tx.append(stacks)
    return tx


def chunk_policy():
    return st.one_of(
        st.lists(st.integers(1, 255), min_size=1, max_size=6),
        st.sampled_from([[1], [255], [80], [1, 255], [2, 3, 5, 7]]))


def rlp_receipt(maxlen=2000):
    return st.binary(min_size=0, max_size=maxlen).map(rlp_wrap_list)


def byte_string_1_33():
    return st.one_of(st.binary(min_size=1, max_size=33), st.binary(min_size=32, max_size=33),
                     st.sampled_from([b"\x00", b"\x01", b"\x00" + b"\xff" * 32]),
                     # ending like a status word
                     st.binary(min_size=30, max_size=30).map(lambda b: b + b"\x90\x00"))


def textlike_head32():
    """32 bytes that begin with characters of the text headers they follow without a delimiter
    in the signed messages (version digits, dots, colons, letters)."""
    return st.tuples(st.lists(st.sampled_from(list(b"0123456789.:HSMUIabcx")), min_size=1,
                              max_size=4), st.binary(min_size=32, max_size=32)).map(
        lambda t: (bytes(t[0]) + t[1])[:32])
