"""The manager programs themselves (middleware/manager_ledger.py, manager_sgx.py,
manager_tcp.py), run as a user starts them: as __main__ with a command line and an environment,
against the simulated device. Only the standard library is touched to observe them (the
socketserver.TCPServer instances they create are noted so that they can be probed and shut
down).

The program runs in the calling (main) thread, as it does for a user - code that only works
there (signal handlers) works, and a program that hangs is interrupted by the runner's per-case
watchdog with the program's own frames on the stack. A helper thread plays the client: it waits
for a server to appear, sends one request, and shuts the server down."""
import logging
import os
import runpy
import signal
import socket
import socketserver
import sys
import threading
import time

from .core import MIDDLEWARE, HarnessError
from . import mw

SCRIPTS = {"Ledger": "manager_ledger.py", "SGX": "manager_sgx.py", "TCP": "manager_tcp.py"}


def _ask_version(port):
    s = socket.create_connection(("127.0.0.1", port), timeout=30)
    try:
        s.sendall(b'{"command":"version"}\n')
        s.shutdown(socket.SHUT_WR)
        data = b""
        while True:
            d = s.recv(65536)
            if not d:
                break
            data += d
        return data
    finally:
        s.close()


def run_manager(platform, argv, env, w, talk=None, **_ignored):
    """Starts the manager for `platform` with the command line `argv` and the environment
    variables `env` (added to the process's for the duration), device = world `w`.
    Returns {"served": bool, "reply": bytes or None, "end": how the program ended,
    "exit": SystemExit code or None}. A manager that serves is asked one `version` request (or
    whatever `talk(port)` does) and then shut down."""
    from comm.platform import Platform
    mw.install(w)
    script = os.path.join(MIDDLEWARE, SCRIPTS[platform])
    if not os.path.isfile(script):
        raise HarnessError("no such manager program: %s" % script)
    created = []
    real_init = socketserver.TCPServer.__init__

    def noting_init(self, *a, **kw):
        real_init(self, *a, **kw)
        created.append(self)
    res = {"served": False, "reply": None, "end": None, "exit": None, "client_error": None}
    saved_argv = sys.argv
    saved_env = {k: os.environ.get(k) for k in env}
    saved_reuse = socketserver.TCPServer.allow_reuse_address
    saved_signals = {}
    for sg in (signal.SIGTERM, signal.SIGINT, signal.SIGHUP):
        try:
            saved_signals[sg] = signal.getsignal(sg)
        except (ValueError, OSError):
            pass
    ended = threading.Event()

    def client():
        # until the program either serves or ends (no allowance decides between the two)
        while not ended.is_set():
            if created:
                try:
                    port = created[0].server_address[1]
                    res["reply"] = talk(port) if talk is not None else _ask_version(port)
                    res["served"] = mw.parse_reply(res["reply"]) is not None \
                        if isinstance(res["reply"], bytes) else bool(res["reply"])
                except OSError as e:
                    if not ended.is_set():
                        res["client_error"] = repr(e)
                        time.sleep(0.01)
                        continue
                break
            time.sleep(0.005)
        for s in list(created):
            # (each from a thread of its own: shutdown() waits for a serve_forever() to end,
            # and a program that made a server without serving on it would keep us waiting)
            threading.Thread(target=s.shutdown, daemon=True).start()
    helper = threading.Thread(target=client, daemon=True)
    socketserver.TCPServer.__init__ = noting_init
    sys.argv = [script] + list(argv)
    for k, v in env.items():
        if v is None:
            os.environ.pop(k, None)
        else:
            os.environ[k] = v
    try:
        helper.start()
        try:
            runpy.run_path(script, run_name="__main__")
            res["end"] = "returned"
        except SystemExit as e:
            res["end"] = "exit"
            res["exit"] = e.code
        except BaseException as e:   # noqa
            if type(e).__name__ in ("CaseTimeout", "KeyboardInterrupt"):
                raise       # the runner's watchdog: the program was still running
            res["end"] = "raised:" + type(e).__name__
            res["exception"] = e
        finally:
            ended.set()
        helper.join(timeout=30)
    finally:
        ended.set()
        socketserver.TCPServer.__init__ = real_init
        socketserver.TCPServer.allow_reuse_address = saved_reuse
        sys.argv = saved_argv
        for k, v in saved_env.items():
            if v is None:
                os.environ.pop(k, None)
            else:
                os.environ[k] = v
        for sg, h in saved_signals.items():
            try:
                signal.signal(sg, h if h is not None else signal.SIG_DFL)
            except (ValueError, OSError, TypeError):
                pass
        for s in created:
            try:
                s.server_close()
            except Exception:   # noqa
                pass
        Platform.set(Platform.LEDGER)
        # the programs configure logging for a process of their own
        for lg in list(logging.root.manager.loggerDict.values()):
            if isinstance(lg, logging.Logger):
                lg.disabled = False
        for h in list(logging.root.handlers):
            logging.root.removeHandler(h)
        logging.disable(logging.CRITICAL)
    return res
