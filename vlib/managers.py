"""The manager programs themselves (middleware/manager_ledger.py, manager_sgx.py,
manager_tcp.py), run as a user starts them: as __main__ with a command line and an environment,
against the simulated device. Only the standard library is touched to observe them (the
socketserver.TCPServer instances they create are noted so that they can be probed and shut
down)."""
import logging
import os
import runpy
import socket
import socketserver
import sys
import threading
import time

from .core import MIDDLEWARE, HarnessError
from . import mw

SCRIPTS = {"Ledger": "manager_ledger.py", "SGX": "manager_sgx.py", "TCP": "manager_tcp.py"}


def run_manager(platform, argv, env, w, serve_wait_s=5.0, stop_wait_s=0.6, expect_serve=None,
                talk=None):
    """Starts the manager for `platform` with the command line `argv` and the environment
    variables `env` (added to the process's for the duration), device = world `w`.
    Returns {"served": bool, "reply": bytes or None, "end": how the program ended,
    "exit": SystemExit code or None}. A manager that serves is asked one `version` request (or
    whatever `talk(port)` does) and then shut down."""
    from comm.platform import Platform
    mw.install(w)
    script = os.path.join(MIDDLEWARE, SCRIPTS[platform])
    if not os.path.isfile(script):
        raise HarnessError("no such manager program: %s" % script)
    created = []
    real_init = socketserver.TCPServer.__init__

    def noting_init(self, *a, **kw):
        real_init(self, *a, **kw)
        created.append(self)
    res = {"served": False, "reply": None, "end": None, "exit": None}
    saved_argv = sys.argv
    saved_env = {k: os.environ.get(k) for k in env}
    saved_reuse = socketserver.TCPServer.allow_reuse_address

    def target():
        try:
            runpy.run_path(script, run_name="__main__")
            res["end"] = "returned"
        except SystemExit as e:
            res["end"] = "exit"
            res["exit"] = e.code
        except BaseException as e:   # noqa
            res["end"] = "raised:" + type(e).__name__
    socketserver.TCPServer.__init__ = noting_init
    sys.argv = [script] + list(argv)
    for k, v in env.items():
        if v is None:
            os.environ.pop(k, None)
        else:
            os.environ[k] = v
    t = threading.Thread(target=target, daemon=True)
    try:
        t.start()
        wait = serve_wait_s if expect_serve in (True, None) else stop_wait_s
        deadline = time.time() + wait
        while time.time() < deadline:
            if created:
                try:
                    port = created[0].server_address[1]
                    if talk is not None:
                        res["reply"] = talk(port)
                    else:
                        s = socket.create_connection(("127.0.0.1", port), timeout=5)
                        try:
                            s.sendall(b'{"command":"version"}\n')
                            s.shutdown(socket.SHUT_WR)
                            data = b""
                            while True:
                                d = s.recv(65536)
                                if not d:
                                    break
                                data += d
                        finally:
                            s.close()
                        res["reply"] = data
                    res["served"] = mw.parse_reply(res["reply"]) is not None \
                        if isinstance(res["reply"], bytes) else bool(res["reply"])
                    break
                except OSError:
                    pass
            if not t.is_alive():
                break
            time.sleep(0.01)
        for s in created:
            # (from a thread of its own: shutdown() waits for a serve_forever() to end, and a
            # program that made a server without ever serving on it would keep us waiting)
            threading.Thread(target=s.shutdown, daemon=True).start()
        t.join(timeout=10)
        if t.is_alive():
            raise HarnessError("manager program did not end after its server was shut down")
    finally:
        socketserver.TCPServer.__init__ = real_init
        socketserver.TCPServer.allow_reuse_address = saved_reuse
        sys.argv = saved_argv
        for k, v in saved_env.items():
            if v is None:
                os.environ.pop(k, None)
            else:
                os.environ[k] = v
        Platform.set(Platform.LEDGER)
        # the programs configure logging for a process of their own
        for lg in list(logging.root.manager.loggerDict.values()):
            if isinstance(lg, logging.Logger):
                lg.disabled = False
        for h in list(logging.root.handlers):
            logging.root.removeHandler(h)
        logging.disable(logging.CRITICAL)
    return res
