"""Process set-up shared by every check: import path of the code under test (always /repo's
current working tree, or VERIF_REPO for sensitivity runs), logging off, sleeps patched out."""
import logging
import os
import sys

from .core import VERIF, MIDDLEWARE

_done = False


def prepare():
    global _done
    if _done:
        return
    _done = True
    for p in (os.path.join(VERIF, ".deps"), MIDDLEWARE, os.path.join(VERIF, "shims")):
        if p in sys.path:
            sys.path.remove(p)
        sys.path.insert(0, p)
    sys.dont_write_bytecode = True
    logging.disable(logging.CRITICAL)
    if not os.path.isdir(MIDDLEWARE):
        from .core import HarnessError
        raise HarnessError("code under test not found at %s" % MIDDLEWARE)
