"""Protocol-specification classifier for C02, transcribed from docs/protocol.md and
docs/protocol-v1.md (NOT from the middleware's validation code).

allowed(request, mode) -> (set of allowed verdicts, ambiguous?)
A verdict is 'ACC' (accepted: the device is contacted / version answered) or an error code.
Every defect the documentation defines contributes its code; with several defects any of
their codes is allowed (the docs give no precedence). Where the docs are silent the case is
flagged ambiguous and not asserted.
"""
import re

HEXRE = re.compile(r"([0-9a-fA-F]{2})*")
AMB = "AMB"

V5_COMMANDS = ["version", "sign", "getPubKey", "advanceBlockchain", "resetAdvanceBlockchain",
               "blockchainState", "updateAncestorBlock", "blockchainParameters",
               "signerHeartbeat", "uiHeartbeat"]
V1_COMMANDS = ["version", "sign", "getPubKey"]

# result codes docs/protocol.md lists per command (plus generic 9xx for all)
GENERIC = {-901, -902, -903, -904, -905, -906}
DOCUMENTED = {
    "version": {0},
    "sign": {0, -101, -102, -103},
    "getPubKey": {0, -103},
    "advanceBlockchain": {0, 1, -201, -202, -204, -205},
    "resetAdvanceBlockchain": {0},
    "blockchainState": {0},
    "updateAncestorBlock": {0, -201, -203, -204},
    "blockchainParameters": {0},
    "signerHeartbeat": {0, -301},
    "uiHeartbeat": {0, -301},
}
DOCUMENTED_V1 = {0, -2, -666}


def is_hex(s):
    return type(s) is str and HEXRE.fullmatch(s) is not None


AUTH_KEYS = ["m/44'/0'/0'/0/0", "m/44'/1'/0'/0/0"]
UNAUTH_KEYS = ["m/44'/137'/0'/0/0", "m/44'/137'/1'/0/0", "m/44'/1'/1'/0/0", "m/44'/1'/2'/0/0"]


def key_ok(k):
    if type(k) is not str:
        return False
    if k in AUTH_KEYS or k in UNAUTH_KEYS:
        return True
    if re.fullmatch(r"m((/[0-9]+'?){5})", k):
        # a well-formed five-element path that is not one of the six "only accepted" paths:
        # the docs say -103 is "invalid or unauthorized key ID" but not who refuses it (the
        # manager may, or it may leave it to the device)
        return AMB if all(int(e.rstrip("'")) < 2 ** 31 for e in k[2:].split("/")) else False
    # decimal digits outside ASCII: docs say nothing
    if re.fullmatch(r"m((/\d+'?){5})", k):
        return AMB
    return False


def hexfield(o, name, n=None, nonempty=True):
    """True ok / False defect / AMB (docs silent)."""
    if type(o) is not dict or name not in o or type(o[name]) is not str:
        return False
    v = o[name]
    if not is_hex(v):
        try:
            b = bytes.fromhex(v)      # tolerates embedded ASCII whitespace
        except Exception:
            return False
        if n is not None and len(b) != n:
            return AMB
        if nonempty and len(b) == 0:
            return AMB
        return AMB
    if n is not None and len(v) // 2 != n:
        return False
    if nonempty and len(v) == 0:
        return False
    return True


def tx_decodable(txhex):
    """Independent structural decoder: True / False / AMB (segwit marker, zero inputs)."""
    try:
        b = bytes.fromhex(txhex)
        pos = [0]

        def rd(n):
            if pos[0] + n > len(b):
                raise ValueError
            r = b[pos[0]:pos[0] + n]
            pos[0] += n
            return r

        def vi():
            f = rd(1)[0]
            if f < 0xfd:
                return f
            return int.from_bytes(rd({0xfd: 2, 0xfe: 4, 0xff: 8}[f]), "little")
        rd(4)
        if b[4:6] == b"\x00\x01":
            return AMB
        nin = vi()
        if nin == 0:
            return AMB
        for _ in range(nin):
            rd(36)
            s = rd(vi())
            rd(4)
            if len(s) == 0:
                return False
            i = 0
            while i < len(s):
                op = s[i]
                i += 1
                if op <= 0x4e:
                    if op < 0x4c:
                        n = op
                    elif op == 0x4c:
                        if i + 1 > len(s):
                            return False
                        n = s[i]
                        i += 1
                    elif op == 0x4d:
                        if i + 2 > len(s):
                            return False
                        n = int.from_bytes(s[i:i + 2], "little")
                        i += 2
                    else:
                        if i + 4 > len(s):
                            return False
                        n = int.from_bytes(s[i:i + 4], "little")
                        i += 4
                    if i + n > len(s):
                        return False
                    i += n
        for _ in range(vi()):
            rd(8)
            rd(vi())
        rd(4)
        return pos[0] == len(b)
    except Exception:
        return False


def codes(mode):
    if mode == "v5":
        return dict(fmt=-901, inv=-902, unk=-903, ver=-904, auth=-101, msg=-102, key=-103,
                    blocks=-204, bro=-205, ud=-301)
    return dict(fmt=-2, inv=-2, unk=-2, ver=-666, auth=-2, msg=-2, key=-2)


def allowed(req, mode):
    V = 5 if mode == "v5" else 1
    E = codes(mode)
    out = set()
    amb = False
    if type(req) is not dict:
        return {E["fmt"]}, False
    if "command" not in req:
        out.add(E["inv"])
    cmd = req.get("command")
    if "command" in req and cmd != "version" and "version" not in req:
        out.add(E["inv"])
    if "version" in req:
        v = req["version"]
        if type(v) is int and v == V:
            pass
        elif type(v) in (float, bool) and v == V:
            amb = True
        else:
            out.add(E["ver"])
    known = V5_COMMANDS if mode == "v5" else V1_COMMANDS
    if "command" in req:
        if type(cmd) is not str:
            out.add(E["unk"])
            out.add(E["inv"])
        elif cmd not in known:
            out.add(E["unk"])

    def flag(r, code):
        nonlocal amb
        if r is False:
            out.add(code)
        elif r == AMB:
            amb = True
    if type(cmd) is not str:
        cmd = None
    if cmd in ("sign", "getPubKey"):
        flag(key_ok(req.get("keyId")), E["key"])
    if cmd == "sign" and mode == "v5" and type(req.get("message")) is dict:
        # the docs tie each message format to a set of keys; who enforces it is not said
        k, m = req.get("keyId"), req["message"]
        if ("hash" in m and k in AUTH_KEYS) or ("hash" not in m and k in UNAUTH_KEYS):
            amb = True
    # fields the docs do not mention (at the top level or inside auth): docs silent
    documented = {"version": {"command", "version"},
                  "sign": {"command", "version", "keyId", "message", "auth"},
                  "getPubKey": {"command", "version", "keyId"},
                  "advanceBlockchain": {"command", "version", "blocks", "brothers"},
                  "resetAdvanceBlockchain": {"command", "version"},
                  "blockchainState": {"command", "version"},
                  "updateAncestorBlock": {"command", "version", "blocks"},
                  "blockchainParameters": {"command", "version"},
                  "signerHeartbeat": {"command", "version", "udValue"},
                  "uiHeartbeat": {"command", "version", "udValue"}}
    if cmd in documented and set(req) - documented[cmd]:
        amb = True
    if mode == "v1" and cmd == "sign" and "auth" in req:
        amb = True      # docs/protocol-v1.md knows no such member
    if cmd == "sign" and type(req.get("auth")) is dict and \
            set(req["auth"]) - {"receipt", "receipt_merkle_proof"}:
        amb = True
    if cmd == "sign" and mode == "v1":
        flag(hexfield(req, "message", 32), E["msg"])
    if cmd == "sign" and mode == "v5":
        m = req.get("message")
        if type(m) is not dict:
            out.add(E["msg"])
            # auth is judged independently of the message
            if "auth" in req:
                a = req["auth"]
                if type(a) is not dict:
                    out.add(E["auth"])
                else:
                    amb = amb or _auth_defects(a, out, E) == AMB
        elif "hash" in m:
            flag(hexfield(m, "hash", 32), E["msg"])
            if len(m) != 1:
                amb = True
            if "auth" in req:
                amb = True
        else:
            a = req.get("auth")
            if type(a) is not dict:
                out.add(E["auth"])
            else:
                if _auth_defects(a, out, E) == AMB:
                    amb = True
            scm = m.get("sighashComputationMode")
            if type(scm) is not str or scm not in ("legacy", "segwit"):
                out.add(E["msg"])
            r = hexfield(m, "tx")
            flag(r, E["msg"])
            if r is True:
                flag(tx_decodable(m["tx"]), E["msg"])
            inp = m.get("input")
            if type(inp) is not int:
                out.add(E["msg"])
            elif not (0 <= inp < 2 ** 32):
                out.add(E["msg"])
            want = {"tx", "input", "sighashComputationMode"}
            if scm == "segwit":
                want |= {"witnessScript", "outpointValue"}
                flag(hexfield(m, "witnessScript"), E["msg"])
                ov = m.get("outpointValue")
                if type(ov) is not int:
                    out.add(E["msg"])
                elif ov == 0:
                    amb = True
                elif not (0 < ov < 2 ** 64):
                    out.add(E["msg"])
                ws = m.get("witnessScript")
                if is_hex(ws) and len(ws) // 2 > 10000:
                    amb = True      # docs give no size limit; the wire format has one
            if set(m) - want:
                amb = True
            p = a.get("receipt_merkle_proof") if type(a) is dict else None
            if type(p) is list and (len(p) > 255 or any(
                    is_hex(x) and len(x) // 2 > 255 for x in p)):
                amb = True          # proof framing limits are the device's, docs silent
    if cmd == "advanceBlockchain" and mode == "v5":
        b = req.get("blocks")
        if type(b) is not list or len(b) == 0 or not all(type(x) is str for x in b):
            out.add(E["blocks"])
        else:
            amb = True if any(not _plausible_block(x) for x in b) else amb
        br = req.get("brothers")
        if type(br) is not list or (type(b) is list and len(br) != len(b)):
            out.add(E["bro"])
        elif not all(type(x) is list for x in br):
            out.add(E["bro"])
        else:
            for lst in br:
                if len(lst) > 10:
                    amb = True
                for x in lst:
                    flag(hexfield({"x": x}, "x"), E["bro"])
                    if is_hex(x) and not _plausible_block(x):
                        amb = True
    if cmd == "updateAncestorBlock" and mode == "v5":
        b = req.get("blocks")
        if type(b) is not list or len(b) == 0 or not all(type(x) is str for x in b):
            out.add(E["blocks"])
        elif any(not _plausible_block(x) for x in b):
            amb = True
    if cmd == "signerHeartbeat" and mode == "v5":
        flag(hexfield(req, "udValue", 16), E["ud"])
    if cmd == "uiHeartbeat" and mode == "v5":
        flag(hexfield(req, "udValue", 32), E["ud"])
    if not out:
        out = {"ACC"}
    return out, amb


def _auth_defects(a, out, E):
    res = None
    r = hexfield(a, "receipt")
    if r is False:
        out.add(E["auth"])
    elif r == AMB:
        res = AMB
    p = a.get("receipt_merkle_proof")
    if type(p) is not list or len(p) == 0:
        out.add(E["auth"])
    else:
        for n in p:
            r = hexfield({"x": n}, "x")
            if r is False:
                out.add(E["auth"])
            elif r == AMB:
                res = AMB
    return res


def _plausible_block(x):
    """Content of block strings: the docs attribute -204 both to the manager and to the
    device ('invalid or not enough input blocks'), so a block string that is not the RLP list
    of 17..20 items is ambiguous: it may be refused before or after contacting the device."""
    from .device import rlp_total_len
    if not is_hex(x) or len(x) == 0:
        return False
    b = bytes.fromhex(x)
    if b[0] < 0xc0:
        return False
    t = rlp_total_len(b)
    if t is None or t != len(b):
        return False
    # count top-level items
    hdr = 1 if b[0] <= 0xf7 else 1 + (b[0] - 0xf7)
    pos, n = hdr, 0
    if not _canonical_prefix(b, 0):
        return False           # a decoder may or may not take a non-minimal encoding
    while pos < len(b):
        t = rlp_total_len(b[pos:])
        if t is None or pos + t > len(b):
            return False
        if b[pos] >= 0xc0:
            return False       # nested list: rlp-decodable, but not a header; docs silent
        if not _canonical_prefix(b, pos):
            return False
        pos += t
        n += 1
    if n not in (17, 18, 19, 20):
        return False
    return len(b) - hdr < 65536


def _canonical_prefix(b, pos):
    """The RLP item at pos uses the shortest encoding of its length (and a single byte below
    0x80 stands for itself)."""
    p = b[pos]
    if p < 0x80 or p == 0x80 or p == 0xc0:
        return True
    if p <= 0xb7:
        return not (p == 0x81 and pos + 1 < len(b) and b[pos + 1] < 0x80)
    if p <= 0xbf or p >= 0xf8:
        n = p - (0xb7 if p <= 0xbf else 0xf7)
        lb = b[pos + 1:pos + 1 + n]
        if len(lb) != n or lb[0] == 0:
            return False
        return int.from_bytes(lb, "big") > 55
    return True

